#!/usr/bin/env python3
"""Generator of /verif/corpus/zlib/*.deflate (run once; the files are committed).

Raw DEFLATE streams written by zlib (python3's zlib module) - a different encoder than the ones the
harness otherwise uses (compress/flate, fastgo, the block synthesiser): every strategy (default,
filtered, Huffman-only, RLE, fixed), levels 0/1/3/6/9, window sizes 2^9/2^12/2^15, and sync / full /
partial flushes (partial flush emits empty fixed blocks) at random positions.
Deterministic: random.seed(20261003). Run inside corpus/zlib.
"""
import zlib, random, os
random.seed(20261003)
def shapes():
    r=random.Random(1)
    text=(b"the quick brown fox jumps over the lazy dog. "*200)
    yield "text", text[:r.randrange(100,6000)]
    yield "rand", bytes(r.getrandbits(8) for _ in range(r.randrange(1,2000)))
    yield "zeros", bytes(r.randrange(1,70000))
    yield "run258", b"A"*258*5+b"B"
    yield "bin4", bytes(r.choice(b"abcd") for _ in range(6000))
    yield "period7", (b"abcdefg"*6000)[:40000]
    yield "mixed", text[:1500]+bytes(r.getrandbits(8) for _ in range(800))+bytes(5000)+text[:1000]
    yield "skew", bytes(min(255,int(r.expovariate(0.08))) for _ in range(9000))
    yield "empty", b""
    yield "one", b"x"
    far=bytearray(r.getrandbits(8) for _ in range(3000)); far=far*11; far+=far[:300]; far+=far[100:400]
    yield "far", bytes(far)
    yield "win66k", bytes((i*i>>3)&3 for i in range(66000))
n=0
strategies=[("def",zlib.Z_DEFAULT_STRATEGY),("filt",zlib.Z_FILTERED),("huff",zlib.Z_HUFFMAN_ONLY),("rle",zlib.Z_RLE),("fixed",zlib.Z_FIXED)]
for name,data in shapes():
    for level in (0,1,3,6,9):
        for sname,strat in strategies:
            for wbits in (-15,-9,-12):
                for flush in ("none","sync","full","partial"):
                    if level==0 and len(data)>10000: continue
                    if random.random() > 0.13: continue
                    c=zlib.compressobj(level, zlib.DEFLATED, wbits, 8, strat)
                    out=b""
                    if flush=="none":
                        out=c.compress(data)+c.flush()
                    else:
                        mode={"sync":zlib.Z_SYNC_FLUSH,"full":zlib.Z_FULL_FLUSH,"partial":getattr(zlib,"Z_PARTIAL_FLUSH",1)}[flush]
                        pos=0
                        rr=random.Random(n)
                        while pos<len(data):
                            k=rr.choice([1,7,100,1000,5000,40000])
                            out+=c.compress(data[pos:pos+k]); pos+=k
                            out+=c.flush(mode)
                            if len(out)>60000: break
                        out+=c.compress(data[pos:])
                        if rr.random()<0.5: out+=c.flush(mode)
                        out+=c.flush()
                    assert zlib.decompress(out, wbits)==data
                    fn="%s_l%d_%s_w%d_%s.deflate"%(name,level,sname,-wbits,flush)
                    open(fn,"wb").write(out); n+=1
print(n, "files", sum(os.path.getsize(f) for f in os.listdir('.')), "bytes")
