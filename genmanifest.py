#!/usr/bin/env python3
"""Regenerates MANIFEST.json from checkspec.py (claimed checks) and properties.jsonl."""
import json, os, subprocess, sys
sys.path.insert(0, os.path.dirname(os.path.abspath(__file__)))
from checkspec import PROPS, MANIFEST_TEXT

ids = [json.loads(l)["id"] for l in open("properties.jsonl")]
hooks = subprocess.run(["git", "-C", "/repo", "log", "--format=%H %s"], capture_output=True, text=True).stdout.splitlines()
hook_commits = [l.split()[0] for l in hooks if " verif hook:" in l]
checks, na = [], []
for i in ids:
    if i in PROPS and i in MANIFEST_TEXT:
        m = MANIFEST_TEXT[i]
        checks.append({
            "property_id": i,
            "quick_cmd": "./check %s --tier quick" % i,
            "thorough_cmd": "./check %s --tier thorough" % i,
            "evidence_file": "/verif/evidence/%s.json" % i,
            "replay_cmd_template": "./check %s --replay {path}" % i,
            "engine": "rapid+go",
            "level_claimed": {"category": PROPS[i]["level"], "text": m["text"], "design_ref": m["design_ref"]},
            "level_note": m["note"],
            "technique": m["technique"],
        })
    else:
        na.append({"property_id": i, "reason": "check not built yet in this session (work in progress; the technique applies, see DESIGN.md section 4)"})
man = {
    "version": 1,
    "setup_cmd": "cd /verif/harness && GOFLAGS=-mod=mod GOPROXY=off GOSUMDB=off GOTOOLCHAIN=local go test -c -tags verif -o /verif/.build/props.verif.test ./props && GOFLAGS=-mod=mod GOPROXY=off GOSUMDB=off GOTOOLCHAIN=local go test -c -race -tags verif -o /verif/.build/props.race.test ./props && GOFLAGS=-mod=mod GOPROXY=off GOSUMDB=off GOTOOLCHAIN=local go test -c -tags verif,noasmtest -o /verif/.build/props.verif_noasmtest.test ./props",
    "hooks": {
        "guard": "verif (Go build tag)",
        "enable": "go test -tags verif (harness module replaces github.com/intel/fastgo with /repo); acceleration level forced per process with FASTGO_VERIF_ARCHLEVEL",
        "baseline_off_cmd": "cd /repo && GOFLAGS=-mod=mod GOPROXY=off go test -json -vet=off -count=1 -timeout 25m ./...",
        "source_commits": hook_commits,
        "add_only": True,
    },
    "engines": [
        {"name": "rapid+go", "path": "/verif/harness", "serves_properties": [c["property_id"] for c in checks],
         "kind_free_text": "property-based testing with pgregory.net/rapid v1.3.0 (generated inputs, op sequences, schedules, injected faults; shrinking; replay files), bounded exhaustive enumerations, native go fuzzing in the thorough tier; oracles: Go standard library, an independent reference inflater, by-construction synthesiser output, round-trip / metamorphic / differential relations"},
    ],
    "checks": checks,
    "not_applicable": na,
    "notes": "Driver: /verif/check <ID> [--tier quick|thorough] [--replay path] [--seed N]; VERIF_SEED selects the rapid seeds. Every check first replays the committed regression cases /verif/replays/<ID>/*.json (one per repaired defect) at every acceleration level and probes the known findings (/verif/known_findings.json: 5 known, 26 fixed entries). Exit 0 = held (KNOWN-FINDING lines allowed), 1 = VIOLATION line(s), 2 = inconclusive (build failure, oracle self-disagreement, watchdog hit that did not reproduce). The thorough tier adds native go fuzzing (C01, C02, C03, C07, C13) and larger enumerations. Sensitivity: /verif/seeded (136 confirmed seeded changes with the checks that catch them, REGRESSION.md), /verif/findings (defect-hunt reports), DESIGN.md section 9.",
}
json.dump(man, open("MANIFEST.json", "w"), indent=1)
print("claimed:", [c["property_id"] for c in checks], "not claimed:", [n["property_id"] for n in na])
