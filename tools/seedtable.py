#!/usr/bin/env python3
"""Prints a markdown table of /verif/seeded/*/meta.json (for DESIGN.md section 9.5)."""
import json, glob, os, re
rows = []
for f in sorted(glob.glob(os.path.join(os.path.dirname(os.path.dirname(os.path.abspath(__file__))), "seeded", "*", "meta.json"))):
    m = json.load(open(f))
    d = os.path.dirname(f)
    what = ""
    notes = os.path.join(d, "agent_notes.md")
    if os.path.exists(notes):
        for line in open(notes):
            line = line.strip()
            if line.startswith("#"):
                what = line.lstrip("# ").strip()
                break
    checks = m.get("checks") or {}
    caught = ", ".join("%s (%ss)" % (k, v["wall_s"]) for k, v in checks.items() if v["exit"] == 1) or "-"
    missed = ", ".join(k for k, v in checks.items() if v["exit"] != 1) or ""
    rows.append("| %s | %s | %s | %s | %s |" % (m["name"], m["property"], what[:110].replace("|", "/"), caught, missed))
print("| seeded change | property | what (agent's title) | caught by (quick tier, wall time) | run but silent |")
print("|---|---|---|---|---|")
print("\n".join(rows))
