#!/usr/bin/env python3
"""Confirm a seeded change produced by a sub-agent and run the checks against it.

usage: tools/seedtest.py <seed-dir> <N> <name> <property> [extra check ids...]

<seed-dir> holds seedN.patch.diff, seedN_demo_test.go.txt, seedN.md (see /tmp/seed/INSTRUCTIONS.txt).
Steps (all in a scratch worktree under /tmp, removed afterwards):
  1. clean tree: demo passes
  2. patched tree: existing suite passes (demo absent), demo fails
  3. patch applied to /repo: ./check <property> (+ extra ids) quick tier -> must exit 1; then `git checkout -- .`
Results are stored in /verif/seeded/<name>/ (patch.diff, demo, meta.json).
"""
import json, os, re, shutil, subprocess, sys, time

ENV = dict(os.environ, GOFLAGS="-mod=mod", GOPROXY="off", GOSUMDB="off", GOTOOLCHAIN="local")
VERIF = os.path.dirname(os.path.dirname(os.path.abspath(__file__)))


def sh(cmd, cwd=None, timeout=1800):
    p = subprocess.run(cmd, cwd=cwd, env=ENV, shell=isinstance(cmd, str), capture_output=True, text=True, timeout=timeout)
    return p.returncode, p.stdout + p.stderr


def main():
    seed_dir, n, name, prop = sys.argv[1:5]
    extra = sys.argv[5:]
    patch = os.path.join(seed_dir, "seed%s.patch.diff" % n)
    demo = os.path.join(seed_dir, "seed%s_demo_test.go.txt" % n)
    md = os.path.join(seed_dir, "seed%s.md" % n)
    first = open(demo).readline()
    m = re.search(r"package dir:\s*(\S+)", first)
    pkgdir = m.group(1).strip("/") if m else "compress/flate"
    if pkgdir in (".", ""):
        pkgdir = "."
    wt = "/tmp/sv_%s" % name
    subprocess.run(["git", "-C", "/repo", "worktree", "remove", "--force", wt], capture_output=True)
    rc, out = sh(["git", "-C", "/repo", "worktree", "add", "-q", wt, "HEAD"])
    if rc != 0:
        print(out)
        sys.exit(2)
    meta = {"name": name, "property": prop, "source": "independent sub-agent given only the property text and a scratch worktree",
            "demo_pkg_dir": pkgdir, "ran": []}
    try:
        demo_dst = os.path.join(wt, pkgdir, "seed_demo_test.go")
        shutil.copy(demo, demo_dst)
        rc, out = sh("go test -tags verif -vet=off -count=1 -run 'Seed|Demo' ./%s" % pkgdir, cwd=wt)
        meta["demo_passes_on_clean_tree"] = rc == 0
        meta["ran"].append({"cmd": "clean tree: go test -run 'Seed|Demo' ./%s" % pkgdir, "rc": rc, "tail": out[-400:]})
        os.remove(demo_dst)
        rc, out = sh(["git", "apply", patch], cwd=wt)
        if rc != 0:
            print("patch does not apply:", out)
            meta["patch_applies"] = False
            return finish(meta, name, patch, demo, md, None)
        meta["patch_applies"] = True
        rc, out = sh("go build ./... && go test -vet=off -count=1 ./...", cwd=wt)
        meta["suite_passes_with_patch"] = rc == 0
        meta["ran"].append({"cmd": "patched tree: go test -vet=off -count=1 ./...", "rc": rc, "tail": out[-400:]})
        shutil.copy(demo, demo_dst)
        rc, out = sh("go test -tags verif -vet=off -count=1 -run 'Seed|Demo' ./%s" % pkgdir, cwd=wt)
        meta["demo_fails_with_patch"] = rc != 0
        meta["ran"].append({"cmd": "patched tree: go test -run 'Seed|Demo' ./%s" % pkgdir, "rc": rc, "tail": out[-600:]})
    finally:
        subprocess.run(["git", "-C", "/repo", "worktree", "remove", "--force", wt], capture_output=True)
    confirmed = meta.get("demo_passes_on_clean_tree") and meta.get("suite_passes_with_patch") and meta.get("demo_fails_with_patch")
    meta["confirmed"] = bool(confirmed)
    results = {}
    if confirmed:
        st = subprocess.run(["git", "-C", "/repo", "status", "--porcelain"], capture_output=True, text=True).stdout
        if st.strip():
            print("/repo is dirty; refusing to apply", st)
            sys.exit(2)
        rc, out = sh(["git", "-C", "/repo", "apply", patch])
        try:
            for cid in [prop] + extra:
                t0 = time.time()
                rc, out = sh(["./check", cid, "--tier", "quick"], cwd=VERIF, timeout=3600)
                viol = re.findall(r"^VIOLATION.*$", out, re.M)
                results[cid] = {"exit": rc, "wall_s": round(time.time() - t0, 1), "violations": viol[:3],
                                "detail": [l for l in out.splitlines() if "violated" in l][:2]}
                meta["ran"].append({"cmd": "patch applied to /repo: ./check %s --tier quick" % cid, "rc": rc})
        finally:
            subprocess.run(["git", "-C", "/repo", "checkout", "--", "."], capture_output=True)
            shutil.rmtree(os.path.join(VERIF, "replays", "_found"), ignore_errors=True)
    finish(meta, name, patch, demo, md, results)


def finish(meta, name, patch, demo, md, results):
    d = os.path.join(VERIF, "seeded", name)
    os.makedirs(d, exist_ok=True)
    shutil.copy(patch, os.path.join(d, "patch.diff"))
    shutil.copy(demo, os.path.join(d, "seed_demo_test.go.txt"))
    if os.path.exists(md):
        shutil.copy(md, os.path.join(d, "agent_notes.md"))
        meta["needs_to_manifest"] = "see agent_notes.md"
    if results is not None:
        meta["checks"] = results
        meta["caught_by"] = [k for k, v in results.items() if v["exit"] == 1]
    json.dump(meta, open(os.path.join(d, "meta.json"), "w"), indent=1)
    print(json.dumps({k: meta.get(k) for k in ("name", "confirmed", "demo_passes_on_clean_tree", "suite_passes_with_patch", "demo_fails_with_patch", "caught_by")}))
    if results:
        for k, v in results.items():
            print(" ", k, "exit", v["exit"], v["wall_s"], "s", (v["detail"] or v["violations"] or [""])[0][:300])


if __name__ == "__main__":
    main()
