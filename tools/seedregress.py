#!/usr/bin/env python3
"""Re-run the kept seeded changes against the current checks (regression of the machinery itself).

usage: tools/seedregress.py [name-prefix ...]

For every /verif/seeded/<name>/ whose patch still applies to /repo's HEAD: apply it to /repo, run the
quick tier of the check(s) that caught it when it was recorded (meta.json "caught_by"; the seed's own
property if none did), restore /repo, and append one line to /verif/seeded/REGRESSION.md.
Patches that no longer apply (later fix: commits touched the same lines) are listed as such.
/repo must be clean; it is restored with `git checkout -- .` after every seed.
"""
import json, os, re, subprocess, sys, time, shutil

VERIF = os.path.dirname(os.path.dirname(os.path.abspath(__file__)))
ENV = dict(os.environ, GOFLAGS="-mod=mod", GOPROXY="off", GOSUMDB="off", GOTOOLCHAIN="local")


def sh(cmd, cwd=None, timeout=3600):
    p = subprocess.run(cmd, cwd=cwd, env=ENV, capture_output=True, text=True, timeout=timeout)
    return p.returncode, p.stdout + p.stderr


def main():
    prefixes = sys.argv[1:]
    names = sorted(d for d in os.listdir(os.path.join(VERIF, "seeded")) if os.path.isdir(os.path.join(VERIF, "seeded", d)))
    if prefixes:
        names = [n for n in names if any(n.startswith(p) for p in prefixes)]
    head = subprocess.run(["git", "-C", "/repo", "rev-parse", "--short", "HEAD"], capture_output=True, text=True).stdout.strip()
    out = open(os.path.join(VERIF, "seeded", "REGRESSION.md"), "a")
    out.write("\n## run of %s against /repo %s\n\n| seeded change | checks run | result |\n|---|---|---|\n" % (time.strftime("%Y-%m-%d %H:%M"), head))
    caught = missed = stale = 0
    for n in names:
        d = os.path.join(VERIF, "seeded", n)
        meta = json.load(open(os.path.join(d, "meta.json")))
        patch = os.path.join(d, "patch.diff")
        if meta.get("obsolete"):
            out.write("| %s | - | obsolete: %s |\n" % (n, meta["obsolete"][:120]))
            out.flush()
            print(n, "OBSOLETE")
            continue
        if subprocess.run(["git", "-C", "/repo", "status", "--porcelain"], capture_output=True, text=True).stdout.strip():
            print("/repo is dirty; stopping")
            sys.exit(2)
        rc, o = sh(["git", "-C", "/repo", "apply", "--check", patch])
        if rc != 0:
            stale += 1
            out.write("| %s | - | patch no longer applies to %s |\n" % (n, head))
            out.flush()
            print(n, "STALE")
            continue
        checks = meta.get("caught_by") or [meta["property"]]
        sh(["git", "-C", "/repo", "apply", patch])
        res = []
        try:
            env_lvl = "3" if n == "R3-B7" else None
            for cid in checks:
                t0 = time.time()
                rc, o = sh(["./check", cid, "--tier", "quick"], cwd=VERIF)
                res.append((cid, rc, round(time.time() - t0, 1)))
                if rc == 1:
                    break
        finally:
            subprocess.run(["git", "-C", "/repo", "checkout", "--", "."], capture_output=True)
            shutil.rmtree(os.path.join(VERIF, "replays", "_found"), ignore_errors=True)
            subprocess.run(["git", "-C", VERIF, "checkout", "--", "evidence"], capture_output=True)
        ok = any(rc == 1 for _, rc, _ in res)
        caught += ok
        missed += not ok
        out.write("| %s | %s | %s |\n" % (n, ", ".join("%s exit %d (%ss)" % r for r in res), "caught" if ok else "NOT caught"))
        out.flush()
        print(n, res, "caught" if ok else "NOT CAUGHT")
    out.write("\ncaught %d, not caught %d, patch stale %d\n" % (caught, missed, stale))
    out.close()
    print("caught", caught, "not caught", missed, "stale", stale)


if __name__ == "__main__":
    main()
