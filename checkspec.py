"""Per-property run plans for ./check. Case counts are totals per acceleration level
(split over shards); 'plain' tests are deterministic enumerations run once per level."""

COMMON_ASSUME = [
    "tests marked noasm also run in the pure-Go build configuration (build tag noasmtest: the *_other.go encoders and decoder that non-amd64 hosts use), reported under per_level key '0-noasmtest'",
    "Go standard library (compress/flate, gzip, zlib, hash/crc32, hash/adler32) is correct where used as oracle, except for the documented NewWriterDict stored-block defect",
    "the reference inflater (harness/refinflate) is correct; it is cross-checked against compress/flate on every stream it judges",
    "acceleration levels are forced through the verif-tag hook in internal/cpu; levels the host CPU cannot execute are skipped and listed",
    "every Write of the writer-side checks hands the Writer a buffer that the harness overwrites as soon as the call returns (as io.Copy and pooled-buffer callers do), so a Writer that retained the slice instead of consuming it would fail the round trip",
]

PROPS = {
    "C01": {
        "level": "exploration",
        "tests": [
            {"name": "TestC01", "noasm": True, "quick": 4000, "thorough": 150000},
            {"name": "TestC01Ex", "kind": "plain"},
            {"name": "TestBig", "kind": "plain", "levels": "one", "env": {"VERIF_BIG": "C01", "VERIF_HANG_SECONDS": "1200"}},
        ],
        "fuzz": [{"name": "FuzzC01RoundTrip", "time": "90s"}],
        "rule": "cases = (data recipe, constructor {NewWriter, 4K window, NewWriterDict}, level -2..9, Write/Flush partition) drawn by rapid, "
                "plus enumerations: lengths around every buffer threshold; token-limit families (incompressible lead of 32767+d and 65534+d bytes - one and two literals per token - followed by runs of 300/520/1300 bytes); the 4 KiB-window phase sweep (k zero bytes, k in 3900..4300, then 80000 incompressible bytes, so that the first full block ends with every number of pending tokens); exact Fibonacci byte counts over 14..23 values (deepest possible literal tree, 21 for one Huffman-only block); each runs at every runnable acceleration level in its own process; plus one stream longer than 4 GiB (three in the thorough tier) generated and verified on the fly. "
                "Oracle: emitted bytes are exactly one complete RFC 1951 stream (reference inflater end position == length), decoded identically by "
                "the reference inflater, compress/flate and fastgo's Reader; Writer buffers guarded by canaries. "
                "Non-trivial = at least one data byte and the stream was produced by fastgo's own compressor (not delegated to compress/flate); distinct = distinct case digest.",
        "assumptions": COMMON_ASSUME,
    },
    "C09": {
        "level": "exploration",
        "tests": [{"name": "TestC09", "noasm": True, "quick": 8000, "thorough": 240000}, {"name": "TestC09Ex", "kind": "plain"}],
        "rule": "cases = (data recipe, accelerated setting over flate/gzip/zlib incl. 4K window, Flush offsets, two Write partitions refining the same Flush offsets, zero-length writes) drawn by rapid; "
                "oracle (metamorphic): both partitions emit byte-for-byte what one Write per Flush segment emits. Non-trivial = the two partitions differ and data is non-empty; distinct = case digest.",
        "assumptions": COMMON_ASSUME,
    },
    "C10": {
        "level": "exploration",
        "tests": [{"name": "TestC10", "noasm": True, "quick": 8000, "thorough": 120000}, {"name": "TestC10Ex", "kind": "plain"}],
        "rule": "cases = (data recipe, flate/gzip/zlib setting at any level incl. Huffman-only, 4K window, dictionary; Write/Flush sequence with Flush first / repeated / with nothing pending / exactly at buffer-full points) drawn by rapid; "
                "oracle at every Flush: reference inflater on the bytes emitted so far yields exactly the data written so far and stops at a byte-aligned block boundary (verdict TRUNCATED, not CORRUPT); the standard library reader yields the same bytes then io.ErrUnexpectedEOF; after Close the whole container is valid. "
                "Non-trivial = at least one Flush with data before it and a Write after a Flush, served by fastgo's own compressor.",
        "assumptions": COMMON_ASSUME,
    },
    "C12": {
        "level": "exploration",
        "tests": [{"name": "TestC12", "noasm": True, "quick": 6000, "thorough": 100000}],
        "rule": "cases = (setting over flate/gzip/zlib, one or two earlier histories of Write/Flush/Close with sizes that leave compressed-but-unemitted data, optional failing destination, gzip header fields set before; then Reset and a later history) drawn by rapid; for dictionary settings the dictionary lives in a buffer the caller keeps and, in half of those cases, overwrites once the earlier stream has been closed (the constructors ask only that it stay unmodified until Close); "
                "oracle (model = fresh object): per-call bytes, byte counts and errors after Reset equal those of a newly constructed Writer running the same later history; a closed later stream decodes to the later data. "
                "Non-trivial = earlier history wrote >=1 byte, later history writes >=1 byte, fastgo's own compressor.",
        "assumptions": COMMON_ASSUME,
    },
    "C14": {
        "level": "fault_enumeration",
        "tests": [{"name": "TestC14", "noasm": True, "quick": 1200, "thorough": 16000}],
        "rule": "cases = (setting, Write/Flush/Close sequence, error value in {custom sentinel, io.ErrClosedPipe, *os.PathError, custom struct, io.EOF, io.ErrShortWrite, and the errors a closed compress/flate Writer and a closed fastgo Writer return - compressors stacked and closed in the wrong order}, short-write size, up to four further calls issued after the history's Close in the runs with a fault - i.e. after a failed Close -, optional Reset+later history) drawn by rapid; for each case the fault-free run counts the destination calls N and then EVERY k in 1..N (N<=64; stratified sample of first/last/op-boundary/stride otherwise) is injected. Cost bound (by size, not time): for settings whose compressor is compress/flate's (levels 3..9, dictionaries) the writes are scaled to <= 100 KiB (32 KiB at levels >= 7, where compress/flate drops to ~75 KB/s on low-entropy data) and inputs above 16 KiB get the stratified sample. gzip headers include non-ASCII Latin-1 names/comments (converted strings are separate destination calls). "
                "Oracle: the operation containing call k returns the injected error; every later call returns non-nil; zero destination calls after the failure; no panic; canaries around Writer buffers intact; Reset(good) behaves like a new Writer; the fault-free run yields a complete valid container. "
                "evaluations = (case, k) pairs. Non-trivial = the failing call happens inside Flush or Close, or k>1; fastgo's own compressor.",
        "assumptions": COMMON_ASSUME,
    },
    "C16": {
        "level": "exploration",
        "tests": [
            {"name": "TestC16", "quick": 2000, "thorough": 40000},
            {"name": "TestC16Ex", "kind": "plain", "noasm": True, "shards": {"quick": 4, "thorough": 4}},
            {"name": "TestC16Ctor", "kind": "plain"},
        ],
        "rule": "exhaustive: every call sequence of length 1..4 (quick) / 1..5 (thorough) over {Write(empty), Write(37), Write(buffer-full+7), Flush, Close, Reset} x 24 settings (flate 4K/32K, gzip, zlib; levels -2,-1,0,1,2,6,9); random sequences up to length 40 beyond; constructor x level in [-5,12]. "
                "Oracle: a twin standard-library Writer runs the same sequence; no panic; error iff the twin errs; calls after a successful Close emit bytes only if the twin's do, and a repeated Close that returns nil emits nothing in any package (compress/zlib itself re-emits its trailer; the property's clause is taken literally); bytes up to the first successful Close are a complete valid container of the data written since the last Reset. "
                "Non-trivial = sequence contains a call after Close, Flush/Close with nothing written, or a zero-length Write.",
        "assumptions": COMMON_ASSUME,
    },
    "C19": {
        "level": "exploration",
        "tests": [{"name": "TestC19", "noasm": True, "quick": 6000, "thorough": 200000}],
        "rule": "cases = (data dominated by planted repeats at distances around 4096/32768/65536 separated by fresh random filler, periodic data with period just past a window, inputs > 64 KiB / > 128 KiB; 4K constructor at levels 1,2,-1,3..9 or ordinary constructor at 1,2,-1; Write/Flush partition) drawn by rapid; "
                "oracle: maximum match distance in the reference inflater's trace <= 4096 (4K) / 32768, and the stream round-trips. Non-trivial = output contains a match with distance > window/2, or data > 64 KiB. Labels dist==w and no-match-at-all show the bound is approached from both sides.",
        "assumptions": COMMON_ASSUME,
    },
    "C20": {
        "level": "exploration",
        "tests": [{"name": "TestC20", "noasm": True, "quick": 8000, "thorough": 400000}],
        "rule": "cases = expansion mode (uniform, near-uniform, Fibonacci-skewed, all-distinct, alternating compressible/incompressible, mixed recipes; sizes around block thresholds; levels -2,-1,1,2; both windows; one or several Writes, one Close, no Flush) and periodic mode (period 1..64, long periods sampled evenly, of random bytes over all 256 values or over 2/3/4/16/64 letters, n in {65536,65537,70000,131072,200000,max}; levels 1,2,-1); periods in the class of the known finding periodic-hash-bucket-collisions (>= 3/4 of the period's 4-byte windows share a match-finder hash bucket with another window; never drawn at random: max fraction seen 1/2) are excluded and counted; periods in the class of the known finding periodic-repeated-windows (some 4-byte window occurs twice within the period; nearly all periods over 2..4 letters) are counted and held to the residual oracle only (round trip, expansion bound); "
                "oracle: len(out) <= n + n/32 + 256, resp. <= n/32 + 1200, and the output decodes to the input. Non-trivial = n >= 1. measurements report the worst observed fraction of each bound per setting.",
        "assumptions": COMMON_ASSUME,
    },
    "C02": {
        "level": "exploration",
        "tests": [{"name": "TestC02", "noasm": True, "quick": 5000, "thorough": 80000}, {"name": "TestC02Corpus", "kind": "plain"}],
        "fuzz": [{"name": "FuzzC02Synth", "time": "120s"}],
        "rule": "plus a committed corpus of 452 raw DEFLATE streams written by zlib itself (corpus/zlib, generator corpus/gen_zlib_corpus.py: strategies default/filtered/Huffman-only/RLE/fixed, levels 0..9, windows 2^9..2^15, sync/full/partial flushes incl. empty fixed blocks), each decoded with four Read-size patterns and three delivery variants; cases = valid DEFLATE streams from (a) the block-level synthesiser (stored/fixed/dynamic blocks, random complete prefix codes up to 15 bits incl. chain-shaped ones, degenerate single/no distance code, drawn run-length encodings of the header, HLIT/HDIST/HCLEN padding, overlap copies, distances up to 32768, empty blocks, hundreds of tiny blocks, output beyond the 64 KiB history), (b) compress/flate at levels -2..9 and (c) fastgo's own Writers over data recipes with Flushes; x a drawn cyclic sequence of Read buffer sizes; per acceleration level. "
                "Oracle: concatenated Read results == compress/flate's output == reference inflater's == synthesiser's by-construction output, then io.EOF, further Reads (0, io.EOF). "
                "Non-trivial = the reference trace shows at least one of: a 15-bit code, 1-bit code next to >=13-bit, lit/len code >12 bits used, distance code >10 bits used, header run crossing the lit/dist boundary, single/no distance code, stored block at a bit offset, distance >=32000, overlap copy, empty block, >=100 blocks, output >64 KiB.",
        "assumptions": COMMON_ASSUME,
    },
    "C03": {
        "level": "exploration",
        "tests": [
            {"name": "TestC03", "noasm": True, "quick": 6000, "thorough": 100000},
            {"name": "TestC03Ex", "kind": "plain"},
            {"name": "TestC03Sweep", "kind": "plain", "shards": {"quick": 1, "thorough": 3}},
        ],
        "fuzz": [{"name": "FuzzC03AnyBytes", "time": "150s"}],
        "rule": "cases = random bytes (0..64), mutated valid streams (bit flips, substitutions, insertions, deletions, truncation), valid streams cut at a drawn byte, synthesised streams with one injected fault at a drawn block (distance beyond data produced, unassigned distance code, distance code used with none declared, over-subscribed lit/dist/code-length code, incomplete lit/len code, missing end-of-block code, repeat with nothing to repeat, run past the declared count, stored LEN!=~NLEN, reserved block type, length symbols 286/287, distance symbols 30/31, HLIT>29, HDIST>29, run-past-count through symbol 16, 17 or 18 (optionally after cutting the item list, so that the run starts in the literal/length part), literal/length code lengths given literally (any multiset over up to 286 symbols), and distance code lengths given literally: any multiset, complete, incomplete or over-subscribed, mostly long codes) usually followed by a long tail; placed first in a fresh Reader or after 1-3 earlier uses through Reset; x Read sizes x source chunking; plus every truncation point of fixed small valid streams (exhaustive); plus every multiset of distance code lengths over 11..15 with exactly 30 codes and every 31st of those with fewer (all 324631 in the thorough tier); plus a back-reference reaching one or two bytes before the output start at produced counts around 1, 255, 4096, 32768, 65536. "
                "Oracle: no panic; terminates (livelock bound + watchdog); bytes handed out are a prefix of the reference inflater's output; io.EOF only if the (permissive) reference judges the input to begin with a complete stream and all its bytes were delivered, and always if compress/flate accepts; constructed prefixes end in io.ErrUnexpectedEOF; a defect with >=400 input bytes after it ends in CorruptInputError; the error repeats on later Reads. "
                "Non-trivial = reference verdict is not VALID and the defect/truncation lies after the first complete block header.",
        "assumptions": COMMON_ASSUME,
    },
    "C13": {
        "level": "exploration",
        "tests": [{"name": "TestC13", "noasm": True, "quick": 5000, "thorough": 80000}],
        "fuzz": [{"name": "FuzzC13Reset", "time": "90s"}],
        "rule": "cases = (package flate/gzip/zlib; 1-3 earlier inputs, valid or malformed, each with a read plan: no reads / read k bytes then abandon / drain to EOF or error; then Reset onto the next input: valid, truncated, malformed, in particular streams whose back-references reach before their own start; zlib with right / wrong / missing / unneeded dictionary; bad checksum or cut trailer; read sizes; source chunking) drawn by rapid; in a quarter of the cases every use hands the Reader the same refilled source object (earlier inputs followed by 0..5000 further bytes the Reader may have read ahead); in a third of the zlib cases all dictionaries live in one caller-owned buffer of fixed length whose contents are replaced between uses; in a third of the earlier uses the source is the caller's own *bufio.Reader (16 B..64 KiB) with other data after the stream. "
                "Oracle (model = fresh object): Reset's return value, header fields, every byte and the final error string (incl. CorruptInputError offset) equal those of a newly constructed Reader (NewReader / NewReaderDict) on an identical source; and every caller-owned *bufio.Reader used earlier holds exactly the buffered and unread bytes it held when the Reader left it (a new Reader never touches an unrelated earlier source). "
                "Thorough tier adds a coverage-guided native fuzz target (two arbitrary byte strings: the Reader reads part or all of the first, is Reset onto the second; same model oracle). Non-trivial = an earlier use left undelivered output, an error or a mid-stream state, and the next input is non-empty.",
        "assumptions": COMMON_ASSUME,
    },
    "C04": {
        "level": "exploration",
        "tests": [
            {"name": "TestC04", "noasm": True, "quick": 5000, "thorough": 80000},
            {"name": "TestC04Ex", "kind": "plain"},
            {"name": "TestC04Win", "kind": "plain", "shards": {"quick": 3, "thorough": 4}},
        ],
        "rule": "cases = (valid stream from the C02 generators, or such a stream cut at a drawn byte) x source schedule (all at once, 1-byte, drawn chunk sizes incl. (0,nil) reads and sizes around 16/328/4096, io.EOF delivered with the last bytes or alone) x entry point (NewReader(plain source), NewReader(*bufio.Reader of size s), Reset(*bufio.Reader of size s)), s in {16,17,31,64,327..329,4095..4097,64Ki,1Mi} x Read size sequence; plus, for small fixed streams, the two-chunk split at every byte offset and the 1-byte schedule (enumerated). "
                "Oracle (metamorphic): bytes and final error equal those of the all-at-once run. Non-trivial = >=3 source reads, or destination size 1, or bufio size < 328.",
        "assumptions": COMMON_ASSUME,
    },
    "C18": {
        "level": "exploration",
        "tests": [
            {"name": "TestC18", "quick": 16000, "thorough": 240000, "levels": "one", "shards": {"quick": 12, "thorough": 16}},
            {"name": "TestC18W", "quick": 2000, "thorough": 30000, "same_seed": True, "transcript": True, "shards": {"quick": 2, "thorough": 4}},
            {"name": "TestC18Enc", "quick": 6000, "thorough": 200000, "shards": {"quick": 1, "thorough": 3}},
            {"name": "TestC18EncSweep", "kind": "plain"},
        ],
        "rule": "reader half (in one process, level switched at run time through the verif hook): inputs = valid streams, valid streams cut short, malformed streams with injected faults and >=600-byte tails, mutated streams, random bytes x Read sizes x source chunkings; for every runnable level a fresh Reader decodes the input; oracle: identical bytes and identical outcome kind (EOF / unexpected EOF / corrupt) across levels, and each run satisfies C03's reference-inflater oracle. "
                "writer half (one process per level, same rapid seed): identical workload lists (data, flate/gzip/zlib setting, Write/Flush/Close ops, optional failing destination); each process checks what it emitted (flushed prefixes decode to the data so far, closed stream is a valid container) and records per-call error flags and decode digests; the driver requires the transcripts of all levels to be identical (compressed bytes are deliberately not compared). "
                "token-encoder stress (one process per level): inputs made of short copies from 2..32 KiB back separated by 0..3 literals, so that most tokens are 25..31 bits long - the range around the vector token encoders' per-level fast-path limits; oracle: the output round-trips through compress/flate. A second mode gives copy lengths and distances geometric frequency ladders (both Huffman trees get a wide spread of code lengths; the rarest symbols make tokens of 33..48 bits), with bursts of long far copies and a final copy that is the only user of its length and distance symbols; and a directed sweep slides one burst of 64 such tokens across the encoder's output-buffer fill point by every number of padding literals over a whole buffer period (step 5 quick, 1 thorough). "
                "Non-trivial (reader) = input has a Huffman block with >24 bytes of compressed data, i.e. the AVX2 loop is eligible, and >=2 levels ran; (writer) = non-empty data.",
        "assumptions": COMMON_ASSUME + ["the run-time level switch is faithful for Readers because the decode dispatch re-reads the level on every call; Writers cache their encoder at init and are therefore run one process per level"],
    },
    "C05": {
        "level": "exploration",
        "tests": [{"name": "TestC05", "quick": 5000, "thorough": 80000}],
        "rule": "cases = (valid stream from the C02 generators, wrapped for flate / gzip (Multistream(false), optional name/comment) / zlib) x suffix of 0..5000 bytes (zeros, 0xff, pattern, header look-alike) x source kind x bufio size in {16,17,31,64,100,327..329,4095..4097,64Ki} x constructor (NewReader, Reset on a used Reader) x Read sizes, drawn by rapid. "
                "Oracle: the Reader ends with io.EOF and io.ReadAll(source) afterwards returns exactly the suffix. Non-trivial = suffix non-empty. Sources that are not *bufio.Reader are a recorded known finding: drawn, counted as excluded, and replaced by a bufio source.",
        "assumptions": COMMON_ASSUME,
    },
    "C06": {
        "level": "exploration",
        "tests": [{"name": "TestC06", "quick": 4000, "thorough": 200000},
                  {"name": "TestBig", "kind": "plain", "levels": "one", "env": {"VERIF_BIG": "C06", "VERIF_HANG_SECONDS": "1200"}}],
        "rule": "cases = (gzip | zlib) x direction (fastgo Writer -> standard Reader, standard Writer -> fastgo Reader, fastgo -> fastgo) x level in {-2,-1,0,1,2,3,6,9} x payload recipe x Write/Flush partition x gzip header (Latin-1 name/comment of 0..511 bytes, extra nil/empty/up to 65535 bytes, mtime 0 or any uint32, OS byte) or zlib dictionary x optional earlier use of the Writer followed by Reset x Read sizes x source (bytes.Reader or *bufio.Reader of 16..64Ki), drawn by rapid. "
                "Plus gzip members longer than 4 GiB (length field wraps), produced and verified on the fly. Oracle: the reference container parser finds exactly one member whose payload is the data and whose trailer equals CRC-32/length (gzip) or Adler-32 (zlib) computed by the harness; fastgo's header bytes equal the standard library Writer's for the same header; the reading side returns the payload, equal header fields and io.EOF. "
                "Non-trivial = payload non-empty and (accelerated level, optional header field, dictionary or Writer reuse).",
        "assumptions": COMMON_ASSUME,
    },
    "C07": {
        "level": "exploration",
        "tests": [
            {"name": "TestC07", "quick": 8000, "thorough": 400000},
            {"name": "TestC07Ex", "kind": "plain"},
        ],
        "fuzz": [{"name": "FuzzC07AnyBytes", "time": "90s"}],
        "rule": "cases = well-formed container (gzip with 1-3 members or zlib; fastgo or standard encoder; payload mostly <= 4 KiB so corruption density is high) x corruption (1-3 bit flips / byte substitutions in the trailer, the header or anywhere) or truncation (drawn; every byte for fixed small containers, exhaustive) x Read sizes (destination pre-filled with a canary) x source (bytes.Reader, 16-byte or 4096-byte bufio). "
                "Oracle: no panic; Read returns 0<=n<=len(p) and does not write past p; final error is io.EOF or a checksum/header/corrupt-input/unexpected-EOF error; io.EOF only if the reference container parser judges the corrupted input valid and the bytes handed out equal its payload; a still-valid input must read to EOF; truncation inside a member gives a prefix of the true payload and io.ErrUnexpectedEOF, a cut exactly between gzip members (or empty input) reads as a shorter valid file. "
                "Thorough tier adds a coverage-guided native fuzz target (any bytes through the gzip/zlib Readers, seeded with valid containers of every header shape, same oracle). Non-trivial = the reference verdict on the corrupted input is not VALID.",
        "assumptions": COMMON_ASSUME + ["32-bit checksum collisions are ignored"],
    },
    "C08": {
        "level": "exploration",
        "tests": [{"name": "TestC08", "quick": 4000, "thorough": 200000}],
        "rule": "cases = 1-6 gzip members (payloads incl. empty, levels, fastgo/standard encoders, header fields) written back to back, optional trailing non-gzip bytes, *bufio.Reader source of size 16..64Ki, Read sizes; mode A = default multistream, mode B = Multistream(false) + Reset on the same buffered source per member. "
                "Oracle: A: concatenated payloads then io.EOF, Header of the first member, standard library agrees; B: each member's payload and header in order, after each member the bytes still obtainable from the source (buffered + underlying) are exactly what follows that member, trailing data untouched, Reset with nothing left returns io.EOF. Non-trivial = >= 2 members.",
        "assumptions": COMMON_ASSUME,
    },
    "C11": {
        "level": "exploration",
        "tests": [{"name": "TestC11", "quick": 20000, "thorough": 300000}],
        "rule": "cases = (flate | gzip with Multistream(false) | zlib) x stream written by fastgo or the standard library at levels -2,-1,0,1,2,6 with 1-4 Flush calls at drawn offsets x prefix end (one of the flush points, or the end of the stream/trailer) x behaviour of the source after the prefix (0: every further Read is counted as an over-demand and answered with a sentinel error - the clock-free model of 'would block forever'; 1: a source error; 2: unrelated bytes) x chunking of the prefix x source path (plain -> the Reader's own 4096-byte bufio; *bufio.Reader of 16..64Ki) x Read sizes. "
                "Oracle: D = data written before the prefix end (recorded while writing). Violation iff a Read call makes the source record an over-demand while fewer than len(D) bytes have been handed out, or the output is not D, or an error arrives before D is complete; at the end of the stream io.EOF must arrive with zero over-demands. "
                "Non-trivial = D non-empty and the released prefix is shorter than the bufio buffer in use.",
        "assumptions": COMMON_ASSUME + ["'blocks forever' is modelled by counting demands on the source, which is exact for a Reader that calls its source synchronously from Read (the library starts no goroutines)"],
    },
    "C15": {
        "level": "fault_enumeration",
        "tests": [{"name": "TestC15", "quick": 1600, "thorough": 24000}],
        "rule": "cases = (flate | gzip multistream with 1-2 members | zlib; fastgo or standard encoder; payload mostly <= 2000 bytes; error value in {custom sentinel, io.ErrClosedPipe, io.ErrUnexpectedEOF, *os.PathError, an error wrapping io.EOF, a deadline error, and the sentinel values bufio.ErrBufferFull, io.ErrNoProgress, io.ErrShortBuffer of the packages the Readers are built on}; error alone or together with the last good bytes; source chunking; plain source or *bufio.Reader of 16/64/4096; Read sizes) drawn by rapid; for each case EVERY k in 0..len (containers <= 400 bytes; otherwise first/last 40, a stride and 4 KiB boundaries) is injected as 'source fails after delivering k bytes'; gzip also k = len (failure while probing for the next member). "
                "Oracle: the Reader (or its constructor) ends with exactly that error value (a source that has answered 200000 consecutive calls with its error and is still being called is a livelock - clock-free guard); bytes returned before are a prefix of the true payload; the next three Reads return the same error and no data. evaluations = (case, k) pairs; non-trivial = k >= 1.",
        "assumptions": COMMON_ASSUME,
    },
    "C17": {
        "level": "exploration",
        "race": True,
        "tests": [
            {"name": "TestC17", "quick": 160, "thorough": 3000},
            {"name": "TestC17", "tag": "-race", "race": True, "quick": 40, "thorough": 600, "shards": {"quick": 1, "thorough": 2}},
        ],
        "rule": "cases = sets of 2-12 independent jobs, each on its own Writer/Reader values: writer runs (flate/gzip/zlib, accelerated levels, Write/Flush/Close, optional failing destination; digest covers emitted bytes and errors), reader runs over valid, truncated and malformed streams incl. sets dominated by fixed-Huffman blocks (shared package-level tables), Reader Reset reuse (C13 cases) and Writer Reset reuse (C12 cases). Each job runs alone first (digest of everything it observes), then all jobs run concurrently, one goroutine each, released together, under GOMAXPROCS in {1,2,4,16}, three rounds; also built with -race (GORACE=halt_on_error=1). "
                "Oracle: every concurrent digest equals the solo digest; the race detector reports nothing. Non-trivial = >= 2 jobs of >= 2 kinds. measurements.sum_concurrent_job_executions counts the concurrent executions.",
        "assumptions": COMMON_ASSUME + ["interleavings are chosen by the Go scheduler, not enumerated; the race detector does not see memory touched only by assembly"],
    },
}

# Texts for MANIFEST.json, per claimed property.
MANIFEST_TEXT = {
    "C01": {
        "technique": "property-based testing (rapid): generated data x setting x Write/Flush partition, round trip through three independent decoders, canary-guarded buffers, per acceleration level; threshold-length enumeration",
        "text": "Generated-input search: every case compresses with fastgo and must yield exactly one complete stream that the reference inflater, compress/flate and fastgo's Reader decode to the input; run at each acceleration level the host can execute. Exploration cannot prove absence; generators are aimed at the buffer/token/block thresholds read from the code.",
        "note": "Trusts compress/flate and the harness's reference inflater (cross-checked on every stream). Dictionary inputs on which Go's own NewWriterDict round trip fails are a recorded known finding and excluded by a stdlib-only predicate.",
        "design_ref": "DESIGN.md section 4, C01",
    },
    "C09": {
        "technique": "property-based testing (rapid), metamorphic relation: same data and Flush offsets under two generated Write partitions must emit identical bytes",
        "text": "Generated partitions (1-byte writes, zero-length writes, cuts at/next to buffer-full points) against the one-Write-per-segment baseline; any dependence of the compression points on call sizes shows as a byte difference. Exploration over generated inputs at every runnable acceleration level.",
        "note": "No oracle beyond fastgo itself is needed (metamorphic); assumes determinism of a single run, which C17 checks separately.",
        "design_ref": "DESIGN.md section 4, C09",
    },
    "C10": {
        "technique": "property-based testing (rapid) over Write/Flush histories; reference inflater judges the emitted prefix at every Flush",
        "text": "At every generated Flush the bytes emitted so far are decoded by the reference inflater (must give all data so far and stop cleanly at a byte-aligned block boundary) and by the standard library (same bytes, then unexpected EOF). Covers Huffman-only, both windows, gzip and zlib, Flush first/repeated/at exact buffer-full points.",
        "note": "Trusts the reference inflater and compress/flate|gzip|zlib readers.",
        "design_ref": "DESIGN.md section 4, C10",
    },
    "C12": {
        "technique": "model-based property testing (rapid): used-then-Reset Writer vs freshly constructed Writer, per-call transcript equality",
        "text": "Histories are generated to leave every kind of residue (pending tokens, flushed mid-stream, closed, failed destination, gzip header fields); after Reset the per-call bytes and errors must equal a new Writer's.",
        "note": "The fresh Writer is the model; its own correctness is C01/C10's business.",
        "design_ref": "DESIGN.md section 4, C12",
    },
    "C14": {
        "technique": "fault injection enumerated over every destination call index, driven by rapid-generated operation sequences",
        "text": "For each generated history the destination is made to fail at every call index k (exhaustive up to 64 calls, stratified beyond) with several error values and short writes; checks error identity, stickiness, zero calls after failure, no panic, canary-guarded buffers, clean Reset, and validity of the fault-free run.",
        "note": "Destination faults are synchronous return values of io.Writer.Write; partial writes with nil error (contract violations) are out of scope.",
        "design_ref": "DESIGN.md section 4, C14",
    },
    "C16": {
        "technique": "bounded exhaustive enumeration of call sequences plus rapid-generated longer ones, differential against the standard library's Writers",
        "text": "Every sequence up to length 4/5 over six call kinds on 24 settings, random sequences up to 40 calls, and the constructor level domain [-5,12] are compared call by call with a twin standard-library Writer (error iff, no emission after Close unless the twin emits, no panic), and the bytes up to the first Close must be a valid container.",
        "note": "The standard library's behaviour is the specification, as the property states; zlib's second Close re-emits its trailer in the standard library too and is therefore accepted.",
        "design_ref": "DESIGN.md section 4, C16",
    },
    "C19": {
        "technique": "property-based testing (rapid) with planted-repeat generators; validity predicate on the reference inflater's match trace",
        "text": "Inputs are constructed so that the most recent hash candidate lies exactly at distances around the window edge and beyond 64 KiB position wrap; the maximum distance in the decoded trace must not exceed the constructor's window.",
        "note": "Only the reference inflater can report distances; it is cross-checked against compress/flate on every stream.",
        "design_ref": "DESIGN.md section 4, C19",
    },
    "C20": {
        "technique": "property-based testing (rapid) with adversarial symbol distributions; size-bound predicate",
        "text": "Generated uniform / near-uniform / Fibonacci-skewed / alternating inputs and periodic inputs are compressed and the output length is compared with the stated bounds; worst observed fraction of the bound is reported per setting.",
        "note": "Bounds are the property's; decoding uses compress/flate.",
        "design_ref": "DESIGN.md section 4, C20",
    },
    "C02": {
        "technique": "property-based testing (rapid) with a block-level DEFLATE stream synthesiser; differential against compress/flate and an independent reference inflater",
        "text": "Streams are synthesised block by block so that every legal code shape is reached (not only what one encoder emits), then read through fastgo's Reader with generated buffer-size sequences and compared with compress/flate, the reference inflater and the synthesiser's by-construction output. Thorough adds a coverage-guided native fuzz campaign over synthesiser recipes.",
        "note": "Streams the standard library rejects are outside this property's domain; if the generator ever produces one it is reported as a harness (oracle) error, never as a violation.",
        "design_ref": "DESIGN.md section 4, C02",
    },
    "C03": {
        "technique": "property-based testing (rapid) with a fault-injecting stream synthesiser and byte-level mutators; reference-inflater oracle (strict and permissive bounds); exhaustive truncation of small streams; native fuzzing in the thorough tier",
        "text": "Every generated malformed input is judged by the reference inflater (strict = compress/flate's rules, permissive = upper bound of what may be accepted); the Reader's bytes must be a prefix of the reference output and its terminal error must be of the right kind and sticky. Faults are placed after other blocks and followed by long tails so that table-reuse and look-ahead paths are exercised.",
        "note": "Error kind for inputs that are both truncated and defective is only constrained as the property allows (either error) unless >=400 bytes follow the defect.",
        "design_ref": "DESIGN.md section 4, C03",
    },
    "C13": {
        "technique": "model-based property testing (rapid): used-then-Reset Reader vs freshly constructed Reader, full transcript equality, over flate/gzip/zlib with dictionaries",
        "text": "Earlier uses are generated to leave every kind of residue (undelivered output, mid-block state, error state, a dictionary-capable or plain inflater inside zlib); the next input includes streams whose matches reach before their own start, which decode only if something of the earlier stream survived. The transcript must equal a new Reader's.",
        "note": "The fresh Reader is the model; its own correctness is C02/C03/C07's business.",
        "design_ref": "DESIGN.md section 4, C13",
    },
    "C04": {
        "technique": "property-based testing (rapid), metamorphic relation over generated delivery schedules, bufio sizes, entry points and Read sizes; exhaustive split enumeration on small streams",
        "text": "The same compressed bytes are delivered under generated schedules through the three entry points and with generated destination sizes; bytes and final error must equal the all-at-once run, which C02/C03 tie to the standard library.",
        "note": "The harness owns the delivery schedule (synchronous io.Reader), so no timing is involved.",
        "design_ref": "DESIGN.md section 4, C04",
    },
    "C18": {
        "technique": "differential property-based testing (rapid) across acceleration levels: in-process level switching for Readers, per-level processes with identical seeds and transcript diffing for Writers",
        "text": "Every generated input is decoded at each runnable acceleration level and the results compared with each other and with the reference oracle; writer workloads are replayed at each level from the same seed and their observable results (errors, decoded data, flushed prefixes) must coincide. All other writer-side checks additionally run at every level themselves.",
        "note": "Levels the host cannot execute are skipped and listed in the evidence.",
        "design_ref": "DESIGN.md section 4, C18",
    },
    "C05": {
        "technique": "property-based testing (rapid): generated stream + suffix + source kind/size + constructor; exact-position oracle on the source after io.EOF",
        "text": "For every generated combination the bytes still obtainable from the source after io.EOF must be exactly the generated suffix; final blocks of every type and bit alignment vary the look-ahead held at the end.",
        "note": "Sources that are io.ByteReader but not *bufio.Reader over-read by design (known finding bytereader-sources-overread); that class is excluded by a predicate on the case and counted.",
        "design_ref": "DESIGN.md section 4, C05",
    },
    "C06": {
        "technique": "property-based testing (rapid): cross-implementation round trip (fastgo <-> standard library) with generated payloads, headers, dictionaries and writer reuse; RFC 1950/1952 reference parser for trailer and header bytes",
        "text": "Every generated container is taken apart by the harness's own RFC 1950/1952 parser (payload, trailer, header bytes) and read back by the other implementation; header bytes are compared with the standard library Writer's.",
        "note": "zlib dictionary inputs on which Go's own zlib round trip fails (known finding std-dict-stored-first-block) are excluded by a stdlib-only predicate.",
        "design_ref": "DESIGN.md section 4, C06",
    },
    "C07": {
        "technique": "property-based testing (rapid) with generated corruptions and truncations of well-formed containers; reference container parser decides what the corrupted bytes really encode; exhaustive truncation of small containers",
        "text": "For each corrupted input the reference parser decides whether it is (still) valid; fastgo may report io.EOF only then and only with exactly that payload. Destination buffers carry canaries so that a wrong byte count or an overrun is visible.",
        "note": "Error kinds other than EOF are only required to be among checksum/header/corrupt-input/unexpected-EOF, as the property states.",
        "design_ref": "DESIGN.md section 4, C07",
    },
    "C08": {
        "technique": "property-based testing (rapid) over generated member sequences; exact-position oracle on the shared buffered source; standard library as twin",
        "text": "Generated member sequences are read in multistream mode and member by member with Reset on the same *bufio.Reader; after every member the remaining source content must be exactly the following members plus trailing data.",
        "note": "Sources are *bufio.Reader as the property requires.",
        "design_ref": "DESIGN.md section 4, C08",
    },
    "C11": {
        "technique": "property-based testing (rapid) with a harness-owned delivery schedule: gated source that counts demands after a released prefix",
        "text": "The harness owns the source: it releases the compressed bytes up to a generated sync-flush point (or the stream end) and counts any further demand. A demand made while decodable data is still owed is exactly the condition under which a really blocking source would hang the caller, stated without a clock.",
        "note": "Exact for synchronous Readers; sync points and the data before them are recorded while the stream is written.",
        "design_ref": "DESIGN.md section 4, C11",
    },
    "C15": {
        "technique": "fault injection enumerated over every source byte offset, driven by rapid-generated containers, error values and delivery schedules",
        "text": "For each generated container the source is made to fail after every byte count k (exhaustive for small containers) with several error values, alone or together with data; the Reader must surface exactly that value, only correct data before it, and keep returning it.",
        "note": "io.EOF and bufio.ErrBufferFull are not used as injected errors (the first is not a failure, the second is not something a source produces).",
        "design_ref": "DESIGN.md section 4, C15",
    },
    "C17": {
        "technique": "randomised concurrent stress of generated workload sets with solo-vs-concurrent digest comparison, plus the Go race detector",
        "text": "Generated sets of independent Writer/Reader workloads are run alone and then concurrently under several GOMAXPROCS values; any difference in bytes or errors, or any race report, is a violation. This is exploration of scheduler-chosen interleavings, the weakest reach of the set for this technique.",
        "note": "Schedules are not owned or shrunk; a failure saves the workload set, a rerun may need several rounds (replay uses 20).",
        "design_ref": "DESIGN.md section 4, C17",
    },
}
