"""Per-property run plans for ./check. Case counts are totals per acceleration level
(split over shards); 'plain' tests are deterministic enumerations run once per level."""

COMMON_ASSUME = [
    "Go standard library (compress/flate, gzip, zlib, hash/crc32, hash/adler32) is correct where used as oracle, except for the documented NewWriterDict stored-block defect",
    "the reference inflater (harness/refinflate) is correct; it is cross-checked against compress/flate on every stream it judges",
    "acceleration levels are forced through the verif-tag hook in internal/cpu; levels the host CPU cannot execute are skipped and listed",
]

PROPS = {
    "C01": {
        "level": "exploration",
        "tests": [
            {"name": "TestC01", "quick": 1600, "thorough": 30000},
            {"name": "TestC01Ex", "kind": "plain"},
        ],
        "rule": "cases = (data recipe, constructor {NewWriter, 4K window, NewWriterDict}, level -2..9, Write/Flush partition) drawn by rapid, "
                "plus an enumeration of lengths around every buffer threshold; each runs at every runnable acceleration level in its own process. "
                "Oracle: emitted bytes are exactly one complete RFC 1951 stream (reference inflater end position == length), decoded identically by "
                "the reference inflater, compress/flate and fastgo's Reader; Writer buffers guarded by canaries. "
                "Non-trivial = at least one data byte and the stream was produced by fastgo's own compressor (not delegated to compress/flate); distinct = distinct case digest.",
        "assumptions": COMMON_ASSUME,
    },
}

# Texts for MANIFEST.json, per claimed property.
MANIFEST_TEXT = {
    "C01": {
        "technique": "property-based testing (rapid): generated data x setting x Write/Flush partition, round trip through three independent decoders, canary-guarded buffers, per acceleration level; threshold-length enumeration",
        "text": "Generated-input search: every case compresses with fastgo and must yield exactly one complete stream that the reference inflater, compress/flate and fastgo's Reader decode to the input; run at each acceleration level the host can execute. Exploration cannot prove absence; generators are aimed at the buffer/token/block thresholds read from the code.",
        "note": "Trusts compress/flate and the harness's reference inflater (cross-checked on every stream). Dictionary inputs on which Go's own NewWriterDict round trip fails are a recorded known finding and excluded by a stdlib-only predicate.",
        "design_ref": "DESIGN.md section 4, C01",
    },
}
