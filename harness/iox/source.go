package iox

import (
	"errors"
	"fmt"
	"io"
)

// Chunked is a source that delivers data according to a schedule of chunk sizes.
// A size of 0 produces a (0, nil) read. After the schedule is exhausted the rest
// is delivered in chunks of Rest bytes (0 = all at once).
type Chunked struct {
	Data     []byte
	Sizes    []int
	Rest     int
	EOFWith  bool  // deliver io.EOF together with the last bytes
	FailAt   int   // fail after delivering this many bytes (-1 = never)
	FailErr  error // the failure
	FailWith bool  // deliver the failure together with the last good bytes
	FailOnce bool  // the failure is reported once; afterwards the source carries on delivering (it "recovered")
	failed   bool
	pos      int
	idx      int
	Reads    int
	zeroRun  int
	errRun   int
}

func (c *Chunked) Read(p []byte) (int, error) {
	c.Reads++
	limit := len(c.Data)
	failing := c.FailErr != nil && c.FailAt >= 0 && c.FailAt <= len(c.Data) && !(c.FailOnce && c.failed)
	if failing {
		limit = c.FailAt
	}
	if c.pos >= limit {
		if failing {
			c.failed = true
			c.errRun++
			if c.errRun > 200000 {
				// deterministic livelock guard (no clock): a Reader that keeps calling a source which
				// answers every call with the same error, without ever returning to its caller
				panic(fmt.Sprintf("LIVELOCK: the source has answered %d consecutive calls with its error %q and is still being called", c.errRun, c.FailErr))
			}
			return 0, c.FailErr
		}
		return 0, io.EOF
	}
	n := len(p)
	if c.idx < len(c.Sizes) {
		n = c.Sizes[c.idx]
		c.idx++
		if n == 0 {
			c.zeroRun++
			if c.zeroRun < 50 { // never starve a reader forever
				return 0, nil
			}
			n = 1
		}
	} else if c.Rest > 0 {
		n = c.Rest
	}
	c.zeroRun = 0
	if n > len(p) {
		n = len(p)
	}
	if n > limit-c.pos {
		n = limit - c.pos
	}
	copy(p, c.Data[c.pos:c.pos+n])
	c.pos += n
	if c.pos == limit {
		if failing && c.FailWith {
			c.failed = true
			return n, c.FailErr
		}
		if !failing && c.EOFWith {
			return n, io.EOF
		}
	}
	return n, nil
}

// Pos is the number of bytes delivered so far.
func (c *Chunked) Pos() int { return c.pos }

// ErrOverDemand is what a Gated source answers once its prefix is exhausted.
var ErrOverDemand = errors.New("gated source: read demanded after the released prefix")

// Gated releases Data[:Release] (in chunks) and counts every Read call made
// after that prefix has been fully delivered. Mode selects the answer:
// 0 = ErrOverDemand (models "would block forever"), 1 = a custom error Err,
// 2 = unrelated bytes (Junk, repeated).
type Gated struct {
	Data    []byte
	Release int
	Sizes   []int
	Mode    int
	Err     error
	Junk    byte
	pos     int
	idx     int
	Over    int // number of over-demands
	// OnOver, if set, is asked when the released prefix is exhausted: it may raise Release (the next
	// message of a request/response exchange arrives) and return true; the read then goes on.
	OnOver func() bool
}

func (g *Gated) Read(p []byte) (int, error) {
	if len(p) == 0 {
		return 0, nil
	}
	if g.pos >= g.Release && g.OnOver != nil && g.OnOver() && g.pos < g.Release {
		// opened further
	} else if g.pos >= g.Release {
		g.Over++
		switch g.Mode {
		case 1:
			return 0, g.Err
		case 2:
			for i := range p {
				p[i] = g.Junk
			}
			return len(p), nil
		default:
			return 0, ErrOverDemand
		}
	}
	n := len(p)
	if g.idx < len(g.Sizes) && g.Sizes[g.idx] > 0 {
		n = g.Sizes[g.idx]
	}
	g.idx++
	if n > len(p) {
		n = len(p)
	}
	if n > g.Release-g.pos {
		n = g.Release - g.pos
	}
	copy(p, g.Data[g.pos:g.pos+n])
	g.pos += n
	return n, nil
}

// ByteSrc is a minimal custom io.Reader + io.ByteReader over a byte slice.
type ByteSrc struct {
	Data []byte
	pos  int
}

func (b *ByteSrc) Read(p []byte) (int, error) {
	if b.pos >= len(b.Data) {
		return 0, io.EOF
	}
	n := copy(p, b.Data[b.pos:])
	b.pos += n
	return n, nil
}

func (b *ByteSrc) ReadByte() (byte, error) {
	if b.pos >= len(b.Data) {
		return 0, io.EOF
	}
	c := b.Data[b.pos]
	b.pos++
	return c, nil
}

// Rest returns the unread bytes.
func (b *ByteSrc) Rest() []byte { return b.Data[b.pos:] }
