// Package iox holds instrumented sinks and sources.
package iox

import "fmt"

// Sink is a recording destination that can be told to fail at its k-th call.
// It copies every Write argument (Writers reuse their buffers).
type Sink struct {
	Calls     [][]byte // one entry per Write call that was accepted (fully or partially)
	NCalls    int      // total number of Write calls
	FailAt    int      // 1-based index of the call that fails; 0 = never
	FailErr   error
	Short     int  // bytes accepted by the failing call (clamped to len(p)-1); 0 = none
	Sticky    bool // if true every call from FailAt on fails, otherwise only call FailAt
	Failed    bool
	AfterFail int // number of Write calls made after the first failure
	buf       []byte
}

func (s *Sink) Write(p []byte) (int, error) {
	s.NCalls++
	if s.Failed {
		s.AfterFail++
	}
	if s.FailAt > 0 && (s.NCalls == s.FailAt || (s.Sticky && s.NCalls > s.FailAt)) {
		s.Failed = true
		n := s.Short
		if s.Short < 0 {
			// "full count plus error": legal for an io.Writer, and still a failure
			n = len(p)
		} else if n >= len(p) {
			n = len(p) - 1
		}
		if n < 0 {
			n = 0
		}
		if n > 0 {
			s.Calls = append(s.Calls, append([]byte(nil), p[:n]...))
			s.buf = append(s.buf, p[:n]...)
		}
		err := s.FailErr
		if err == nil {
			err = fmt.Errorf("injected sink failure at call %d", s.NCalls)
		}
		return n, err
	}
	s.Calls = append(s.Calls, append([]byte(nil), p...))
	s.buf = append(s.buf, p...)
	return len(p), nil
}

// Bytes returns everything accepted so far.
func (s *Sink) Bytes() []byte { return s.buf }

// Len returns the number of bytes accepted so far.
func (s *Sink) Len() int { return len(s.buf) }

// StringSink is a Sink that also implements io.StringWriter, as bufio.Writer, bytes.Buffer and
// os.File do: io.WriteString (used for gzip header strings) then calls WriteString instead of
// Write. It counts and fails exactly like a Write call.
type StringSink struct{ *Sink }

func (s StringSink) WriteString(str string) (int, error) { return s.Sink.Write([]byte(str)) }
