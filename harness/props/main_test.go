package props

import (
	"encoding/json"
	"fmt"
	"os"
	"path/filepath"
	"runtime/debug"
	"strconv"
	"strings"
	"sync/atomic"
	"testing"
	"time"

	"github.com/intel/fastgo"

	"verifharness/stats"
)

// archLevel is the acceleration level this process runs at.
var archLevel = fastgo.VerifArchLevel()

func tier() string {
	if v := os.Getenv("VERIF_TIER"); v == "thorough" {
		return "thorough"
	}
	return "quick"
}

func thorough() bool { return tier() == "thorough" }

func envInt(name string, def int) int {
	if v := os.Getenv(name); v != "" {
		if n, err := strconv.Atoi(v); err == nil {
			return n
		}
		// shard names of the extra configurations carry a letter prefix ("p3", "r1"): the number counts
		if n, err := strconv.Atoi(strings.TrimLeft(v, "abcdefghijklmnopqrstuvwxyz")); err == nil {
			return n
		}
	}
	return def
}

// --- hang watchdog -----------------------------------------------------------

type running struct {
	id    string
	c     any
	start time.Time
}

var (
	currentCase atomic.Pointer[running]
	caseCounter atomic.Uint64
)

// begin marks the start of one case (for the hang watchdog); call the returned
// function when the case is done.
func begin(id string, c any) func() {
	currentCase.Store(&running{id: id, c: c, start: time.Now()})
	caseCounter.Add(1)
	return func() { currentCase.Store(nil) }
}

func watchdog() {
	limit := time.Duration(envInt("VERIF_HANG_SECONDS", 120)) * time.Second
	for {
		time.Sleep(2 * time.Second)
		r := currentCase.Load()
		if r != nil && time.Since(r.start) > limit {
			saveLast(r.id, r.c, fmt.Errorf("HANG: case still running after %v", limit))
			fmt.Printf("VERIF-HANG property=%s\n", r.id)
			stats.Flush()
			os.Exit(3)
		}
	}
}

// --- failure files -----------------------------------------------------------

type lastFile struct {
	Property string `json:"property"`
	Level    int    `json:"arch_level"`
	Error    string `json:"error"`
	Case     any    `json:"case"`
}

// saveLast writes the materialised failing case; the last write of a rapid run
// is the shrunk (minimal) one.
func saveLast(id string, c any, err error) {
	dir := os.Getenv("VERIF_LAST_DIR")
	if dir == "" {
		return
	}
	b, _ := json.MarshalIndent(lastFile{Property: id, Level: archLevel, Error: err.Error(), Case: c}, "", " ")
	_ = os.WriteFile(filepath.Join(dir, fmt.Sprintf("%s-L%d-%s.json", id, archLevel, os.Getenv("VERIF_SHARD"))), b, 0o644)
}

// guardPanic converts a panic in the code under test into an error.
func guardPanic(errp *error) {
	if r := recover(); r != nil {
		*errp = fmt.Errorf("PANIC: %v\n%s", r, debug.Stack())
	}
}

func TestMain(m *testing.M) {
	stats.SetLevel(archLevel)
	go watchdog()
	code := m.Run()
	stats.Flush()
	os.Exit(code)
}

func envString(name, def string) string {
	if v := os.Getenv(name); v != "" {
		return v
	}
	return def
}
