package props

import (
	"bytes"
	"encoding/json"
	"fmt"
	"sort"
	"testing"

	"pgregory.net/rapid"

	"verifharness/gen"
	"verifharness/iox"
	"verifharness/stats"
)

// C09: compressed bytes depend only on the data and Flush positions, not on Write sizes.

type C09Case struct {
	Data    gen.Recipe `json:"data"`
	Set     PSetting   `json:"set"`
	Flushes []int      `json:"flushes"` // byte offsets at which Flush is called (repeats allowed)
	OpsA    []gen.Op   `json:"ops_a"`
	OpsB    []gen.Op   `json:"ops_b"`
}

// buildOps turns flush offsets and write cut points into an op list.
func buildOps(n int, flushes, cuts []int, zeroAt []int) []gen.Op {
	pts := map[int]bool{n: true}
	for _, c := range cuts {
		pts[c] = true
	}
	for _, f := range flushes {
		pts[f] = true
	}
	var ps []int
	for p := range pts {
		ps = append(ps, p)
	}
	sort.Ints(ps)
	fl := append([]int(nil), flushes...)
	sort.Ints(fl)
	var ops []gen.Op
	prev := 0
	for _, p := range ps {
		if p > prev {
			ops = append(ops, gen.Op{K: "W", N: p - prev})
		}
		for len(fl) > 0 && fl[0] == p {
			ops = append(ops, gen.Op{K: "F"})
			fl = fl[1:]
		}
		prev = p
	}
	for _, z := range zeroAt {
		at := z % (len(ops) + 1)
		ops = append(ops[:at], append([]gen.Op{{K: "W", N: 0}}, ops[at:]...)...)
	}
	return ops
}

func drawC09(t *rapid.T) C09Case {
	var c C09Case
	c.Set = drawPSetting(t, true, false)
	max := 300 << 10
	if thorough() {
		max = 600 << 10
	}
	c.Data = gen.DrawRecipe(t, max)
	n := c.Data.Len()
	nf := rapid.SampledFrom([]int{0, 0, 1, 2, 3}).Draw(t, "nflush")
	for i := 0; i < nf && n >= 0; i++ {
		switch rapid.IntRange(0, 3).Draw(t, "fmode") {
		case 0:
			c.Flushes = append(c.Flushes, 0)
		case 1:
			c.Flushes = append(c.Flushes, n)
		case 2:
			th := rapid.SampledFrom([]int{8450, 65536, 65794, 16900}).Draw(t, "fT") + rapid.IntRange(-1, 1).Draw(t, "fd")
			if th > n || th < 0 {
				th = rapid.IntRange(0, n).Draw(t, "fpos")
			}
			c.Flushes = append(c.Flushes, th)
		default:
			c.Flushes = append(c.Flushes, rapid.IntRange(0, n).Draw(t, "fpos"))
		}
	}
	sort.Ints(c.Flushes)
	zero := func(label string) (z []int) {
		k := rapid.SampledFrom([]int{0, 0, 1, 3}).Draw(t, label+"_nz")
		for i := 0; i < k; i++ {
			z = append(z, rapid.IntRange(0, 1000).Draw(t, label+"_z"))
		}
		return z
	}
	c.OpsA = buildOps(n, c.Flushes, gen.DrawCuts(t, n, "a"), zero("a"))
	c.OpsB = buildOps(n, c.Flushes, gen.DrawCuts(t, n, "b"), zero("b"))
	return c
}

// emit runs W/F ops then Close and returns all bytes emitted.
func emit(set PSetting, data []byte, ops []gen.Op) (z []byte, err error) {
	defer guardPanic(&err)
	sink := &iox.Sink{}
	w, err := newAnyWriter(sink, set)
	if err != nil {
		return nil, err
	}
	all := append(append([]gen.Op(nil), ops...), gen.Op{K: "C"})
	res, _ := runOps(w, sink, data, all, nil)
	for i, r := range res {
		if r.Panic != "" {
			return nil, fmt.Errorf("op %d (%s): PANIC: %s", i, r.K, r.Panic)
		}
		if r.Err != nil || (r.K == "W" && r.RetN != r.N) {
			return nil, fmt.Errorf("op %d (%s %d) = (%d, %v)", i, r.K, r.N, r.RetN, r.Err)
		}
	}
	return sink.Bytes(), nil
}

func flushOffsets(ops []gen.Op) (offs []int, total int) {
	for _, o := range ops {
		switch o.K {
		case "W":
			total += o.N
		case "F":
			offs = append(offs, total)
		}
	}
	return
}

func checkC09(c C09Case) (labels []string, nontrivial bool, err error) {
	data := c.Data.Bytes()
	n := len(data)
	fa, ta := flushOffsets(c.OpsA)
	fb, tb := flushOffsets(c.OpsB)
	if ta != n || tb != n || fmt.Sprint(fa) != fmt.Sprint(fb) {
		return nil, false, fmt.Errorf("harness: partitions do not share flush positions (%v/%d vs %v/%d, n=%d)", fa, ta, fb, tb, n)
	}
	base := buildOps(n, fa, nil, nil)
	zb, err := emit(c.Set, data, base)
	if err != nil {
		return nil, false, fmt.Errorf("baseline partition: %v", err)
	}
	za, err := emit(c.Set, data, c.OpsA)
	if err != nil {
		return nil, false, fmt.Errorf("partition A: %v", err)
	}
	zc, err := emit(c.Set, data, c.OpsB)
	if err != nil {
		return nil, false, fmt.Errorf("partition B: %v", err)
	}
	if !bytes.Equal(za, zb) {
		return nil, false, fmt.Errorf("partition A emits different bytes than one Write per flush segment: first difference at byte %d (%d vs %d bytes)", firstDiff(za, zb), len(za), len(zb))
	}
	if !bytes.Equal(zc, zb) {
		return nil, false, fmt.Errorf("partition B emits different bytes than one Write per flush segment: first difference at byte %d (%d vs %d bytes)", firstDiff(zc, zb), len(zc), len(zb))
	}
	labels = append(labels, "setting:"+c.Set.String())
	w := c.Set.window()
	if n >= 2*w+258 {
		labels = append(labels, "data>=2w+258")
	}
	if len(fa) > 0 {
		labels = append(labels, "has-flush")
	}
	full := 2*w + 258
	if c.Set.Level == -2 {
		full = 65536
	}
	near := false
	oneByte := 0
	for _, ops := range [][]gen.Op{c.OpsA, c.OpsB} {
		off := 0
		for _, o := range ops {
			if o.K == "W" {
				off += o.N
				if o.N == 1 {
					oneByte++
				}
				if off > 0 && full > 0 {
					m := off % full
					if m <= 1 || m == full-1 {
						near = true
					}
				}
			}
		}
	}
	if near {
		labels = append(labels, "cut-within-1-of-buffer-full")
	}
	if oneByte > 100 {
		labels = append(labels, "one-byte-writes")
	}
	same := fmt.Sprint(c.OpsA) == fmt.Sprint(c.OpsB)
	return labels, !same && n >= 1, nil
}

func TestC09(t *testing.T) {
	rapid.Check(t, func(t *rapid.T) {
		c := drawC09(t)
		done := begin("C09", c)
		defer done()
		labels, nt, err := checkC09(c)
		if err != nil {
			saveLast("C09", c, err)
			t.Fatalf("C09 violated: %v", err)
		}
		stats.Record("C09", stats.Digest(c), nt, labels, func() any { return c })
	})
}

// TestC09Ex: directed sweeps. (1) data ending exactly on a buffer-full point whose pending token count
// is swept across the 32767-token block limit, with the last byte written alone vs. in one Write;
// (2) Huffman-only data of exact multiples of 64 KiB, same two partitions.
func TestC09Ex(t *testing.T) {
	count := 0
	run := func(c C09Case, label string) {
		done := begin("C09", c)
		labels, nt, err := checkC09(c)
		done()
		if err != nil {
			saveLast("C09", c, err)
			t.Fatalf("C09 violated (%s): %v", label, err)
		}
		stats.Record("C09", stats.Digest(c), nt, append(labels, label), func() any { return c })
		count++
	}
	step := 4
	if thorough() {
		step = 1
	}
	for _, full := range []int{65794, 8450} {
		ctor := "new"
		if full == 8450 {
			ctor = "4k"
		}
		// incompressible lead (about one token per two bytes at accelerated levels, one per byte at level 0)
		// followed by a run: sweeping the lead length sweeps the token count of the data ending at `full`
		for lead := 32500; lead <= full; lead++ {
			fine := (lead >= 32560 && lead <= 32720) || (lead >= full-360 && lead <= full-180) // one literal per token (level 0) / two per token
			if !fine && (lead < full-700 || (lead-full)%step != 0) {
				continue
			}
			if full == 8450 && lead < full-700 {
				continue
			}
			for _, lvl := range []int{1, 2} {
				n := full
				data := gen.Recipe{Segs: []gen.Seg{{Kind: "rand", N: lead, A: 256, Seed: 11}, {Kind: "run", N: n - lead, A: 0x55}}}
				c := C09Case{Data: data, Set: PSetting{Pkg: "flate", WSetting: WSetting{Ctor: ctor, Level: lvl}},
					OpsA: []gen.Op{{K: "W", N: n - 1}, {K: "W", N: 1}}, OpsB: []gen.Op{{K: "W", N: n}}}
				run(c, "token-limit-at-buffer-full-sweep")
				c.Flushes = []int{n}
				c.OpsA = []gen.Op{{K: "W", N: n - 1}, {K: "W", N: 1}, {K: "F"}}
				c.OpsB = []gen.Op{{K: "W", N: n}, {K: "F"}}
				run(c, "token-limit-at-buffer-full-sweep")
			}
		}
	}
	for k := 1; k <= 3; k++ {
		for _, ctor := range []string{"new", "4k"} {
			n := k * 65536
			data := gen.Recipe{Segs: []gen.Seg{{Kind: "text", N: n, Seed: uint64(k)}}}
			c := C09Case{Data: data, Set: PSetting{Pkg: "flate", WSetting: WSetting{Ctor: ctor, Level: -2}},
				OpsA: []gen.Op{{K: "W", N: n - 1}, {K: "W", N: 1}}, OpsB: []gen.Op{{K: "W", N: n}}}
			run(c, "huffman-only-exact-64KiB-multiple")
		}
	}
	stats.Exhaustive("C09", fmt.Sprintf("data ending on a buffer-full point (65794 / 8450) with an incompressible lead of full-700..full bytes (step %d) then a run, levels 1,2; last byte alone vs one Write, with and without a Flush there; Huffman-only k*65536 bytes", step), count)
}

func init() {
	replayers["C09"] = func(raw json.RawMessage) error {
		var c C09Case
		if err := json.Unmarshal(raw, &c); err != nil {
			return err
		}
		_, _, err := checkC09(c)
		return err
	}
}
