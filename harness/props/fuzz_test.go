package props

import (
	"errors"
	"testing"

	"verifharness/gen"
	"verifharness/synth"
)

// Native coverage-guided fuzz targets (thorough tier only). The oracle is inside
// the target; a harness-level oracle disagreement is reported with the marker
// ORACLE-DISAGREEMENT so that the driver maps it to "inconclusive", not to a violation.

type provider struct {
	b []byte
	i int
}

func (p *provider) byte() int {
	if p.i >= len(p.b) {
		return 0
	}
	v := p.b[p.i]
	p.i++
	return int(v)
}
func (p *provider) u16() int       { return p.byte() | p.byte()<<8 }
func (p *provider) pick(n int) int { return p.byte() % n }
func (p *provider) rest() []byte {
	if p.i >= len(p.b) {
		return nil
	}
	return p.b[p.i:]
}

func fuzzFail(t *testing.T, id string, c any, err error) {
	var oe *oracleError
	if errors.As(err, &oe) {
		t.Fatalf("ORACLE-DISAGREEMENT (harness): %v", err)
	}
	saveLast(id, c, err)
	t.Fatalf("%s violated (native fuzz): %v", id, err)
}

// FuzzC03AnyBytes: any byte string through a fresh Reader at every runnable level (C03 + C18 oracles).
func FuzzC03AnyBytes(f *testing.F) {
	for i := 0; i < 8; i++ {
		z, _, _, _ := smallStream(i).Build()
		f.Add(z, byte(i))
		if len(z) > 10 {
			f.Add(z[:len(z)/2], byte(1))
			m := append([]byte(nil), z...)
			m[len(m)/3] ^= 0x10
			f.Add(m, byte(2))
		}
	}
	for _, k := range faultKinds {
		s := synth.Stream{Blocks: []synth.BlockSpec{{Type: 2, N: 50, Seed: 3, Alpha: 16, MatchPct: 30, ExtraLit: 10}, {Type: 2, N: 30, Seed: 4, Alpha: 4, MatchPct: 50}},
			Fault: &synth.Fault{Kind: k, Block: 1, At: 2, Arg: 1}, Tail: 64}
		f.Add(s.Build().Bytes, byte(0))
	}
	f.Add([]byte{}, byte(0))
	f.Add([]byte{0, 0, 0, 0xff, 0xff, 1, 0, 0, 0xff, 0xff}, byte(0))
	f.Add([]byte{0xff, 0xff, 0xff, 0xff, 0xff, 0xff, 0xff, 0xff, 0xff, 0xff, 0xff, 0xff, 0xff, 0xff, 0xff, 0xff}, byte(3))
	f.Add(make([]byte, 64), byte(1))
	f.Fuzz(func(t *testing.T, data []byte, ctl byte) {
		if len(data) > 1<<16 {
			return
		}
		c := C18Case{Input: StreamSpec{Kind: "raw", Raw: data}}
		switch ctl % 4 {
		case 0:
			c.Reads = []int{4096}
		case 1:
			c.Reads = []int{1}
		case 2:
			c.Reads = []int{3, 258, 1}
			c.Chunks = []int{1}
		default:
			c.Reads = []int{65536}
			c.Chunks = []int{7, 0, 16, 328, 5}
		}
		done := begin("C03", c)
		defer done()
		if _, _, err := checkC18(c); err != nil {
			fuzzFail(t, "C03", C03Case{Input: c.Input, Reads: c.Reads, Chunks: c.Chunks}, err)
		}
	})
}

// specFromBytes decodes fuzz bytes into a synthesiser recipe, so that the fuzzer
// mutates structure (block types, code shapes, run-length choices), not checksums.
func specFromBytes(p *provider) *synth.Stream {
	s := &synth.Stream{}
	nb := 1 + p.pick(5)
	for i := 0; i < nb; i++ {
		var b synth.BlockSpec
		b.Type = p.pick(3)
		b.Seed = uint64(p.u16())
		b.N = p.u16() % 3000
		if p.pick(8) == 0 {
			b.N = p.u16() % 40000
		}
		b.Alpha = []int{1, 2, 16, 64, 256}[p.pick(5)]
		b.MatchPct = []int{0, 5, 30, 70, 100}[p.pick(5)]
		b.DistMode = p.pick(6)
		b.LenMode = p.pick(4)
		b.Chain = []int{0, 30, 70, 95, 100}[p.pick(5)]
		b.ExtraLit = []int{0, 1, 5, 40, 286}[p.pick(5)]
		b.ExtraDist = []int{0, 1, 3, 30}[p.pick(4)]
		b.DistCode = p.pick(3)
		b.PadLit = []int{0, 1, 5, 29}[p.pick(4)]
		b.PadDist = []int{0, 1, 5, 29}[p.pick(4)]
		b.RLE = p.pick(3)
		b.FullHCLEN = p.pick(2) == 0
		b.ExtraCL = []int{0, 1, 4, 19}[p.pick(4)]
		b.FreqSort = p.pick(2) == 0
		b.Fork = []int{0, 0, 3, 6, 8, 10, 12, 13}[p.pick(8)]
		b.Alt258 = p.pick(4) == 0
		if p.pick(16) == 0 {
			b.Rep = 1 + p.byte()
			if b.N > 8 {
				b.N = 8
			}
		}
		s.Blocks = append(s.Blocks, b)
	}
	return s
}

// FuzzC02Synth: synthesised valid streams through the Reader (C02 oracle).
func FuzzC02Synth(f *testing.F) {
	f.Add([]byte{0}, byte(0))
	f.Add([]byte{2, 2, 1, 0, 200, 0, 4, 2, 0, 0, 3, 2, 1, 2, 0, 0, 1, 0, 2, 1, 3}, byte(1))
	f.Add([]byte{4, 1, 9, 9, 50, 0, 1, 4, 5, 3, 0, 0, 0, 0, 0, 0, 0, 0, 0, 0, 0, 2, 7, 7, 0, 1, 3, 3, 1, 1, 4, 4, 2, 3, 3, 2, 0, 3, 1, 5}, byte(2))
	f.Fuzz(func(t *testing.T, data []byte, ctl byte) {
		if len(data) > 512 {
			return
		}
		p := &provider{b: data}
		c := C02Case{Stream: StreamSpec{Kind: "synth", Synth: specFromBytes(p)}}
		switch ctl % 4 {
		case 0:
			c.Reads = []int{4096}
		case 1:
			c.Reads = []int{1}
		case 2:
			c.Reads = []int{258, 3, 7}
		default:
			c.Reads = []int{65536}
		}
		done := begin("C02", c)
		defer done()
		if _, _, err := checkC02(c); err != nil {
			fuzzFail(t, "C02", c, err)
		}
	})
}

// FuzzC01RoundTrip: raw data bytes + control bytes selecting setting and partition (C01 oracle).
func FuzzC01RoundTrip(f *testing.F) {
	f.Add([]byte("hello hello hello hello"), byte(0), byte(0), uint16(3))
	f.Add(make([]byte, 9000), byte(1), byte(1), uint16(8450))
	f.Add([]byte{1, 2, 3, 4, 5, 6, 7, 8, 1, 2, 3, 4, 5, 6, 7, 8, 9}, byte(2), byte(2), uint16(1))
	f.Fuzz(func(t *testing.T, data []byte, lvl byte, ctor byte, cut uint16) {
		if len(data) > 1<<17 {
			return
		}
		set := WSetting{Ctor: []string{"new", "4k"}[int(ctor)%2], Level: []int{-2, -1, 1, 2}[int(lvl)%4]}
		var ops []gen.Op
		n := len(data)
		c1 := 0
		if n > 0 {
			c1 = int(cut) % (n + 1)
		}
		ops = append(ops, gen.Op{K: "W", N: c1})
		if ctor&4 != 0 {
			ops = append(ops, gen.Op{K: "F"})
		}
		ops = append(ops, gen.Op{K: "W", N: n - c1})
		c := C01Case{Data: gen.Recipe{Segs: []gen.Seg{{Kind: "raw", N: len(data), Raw: data}}}, Set: set, Ops: ops}
		done := begin("C01", c)
		defer done()
		if _, _, err := checkC01(c); err != nil {
			fuzzFail(t, "C01", c, err)
		}
	})
}

// FuzzC07AnyBytes: any byte string through a gzip or zlib Reader (seeded with valid containers of
// every header shape): io.EOF only for input the reference container parser accepts, with exactly
// its payload; a still-valid container must read to io.EOF; every other outcome must be one of the
// checksum / header / corrupt-input / unexpected-EOF errors, and must stick.
func FuzzC07AnyBytes(f *testing.F) {
	seeds := []Member{
		{Enc: "fast", Level: 1, Data: genText(300, 1)},
		{Enc: "std", Level: 6, Data: genText(2000, 2), Hdr: &GzHdr{Name: "n\u00e4me", Comment: "c", Extra: []byte{1, 2, 3}, MTime: 12345, OS: 3}},
		{Enc: "fast", Level: -2, Data: genText(40, 3), Hdr: &GzHdr{Name: "x"}, HCRC: true},
		{Enc: "fast", Level: 2, Data: gen.Recipe{}},
	}
	for i, m := range seeds {
		if z, err := m.build("gzip"); err == nil {
			f.Add(z, byte(i))
			if i > 0 {
				z0, _ := seeds[0].build("gzip")
				f.Add(append(append([]byte(nil), z...), z0...), byte(i))
			}
		}
		m.Hdr, m.HCRC = nil, false
		if z, err := m.build("zlib"); err == nil {
			f.Add(z, byte(128+i))
		}
	}
	f.Add([]byte{}, byte(0))
	f.Add([]byte{0x1f, 0x8b}, byte(0))
	f.Add([]byte{0x78, 0x9c}, byte(128))
	f.Fuzz(func(t *testing.T, data []byte, ctl byte) {
		if len(data) > 1<<16 {
			return
		}
		c := C07Case{Pkg: "gzip", Raw: data, Reads: []int{4096}}
		if data == nil {
			c.Raw = []byte{}
		}
		if ctl >= 128 {
			c.Pkg = "zlib"
		}
		switch ctl % 4 {
		case 1:
			c.Reads = []int{1}
		case 2:
			c.BufSrc = 16
		case 3:
			c.Single = c.Pkg == "gzip"
		}
		done := begin("C07", c)
		defer done()
		if _, _, err := checkC07(c); err != nil {
			fuzzFail(t, "C07", c, err)
		}
	})
}

// FuzzC13Reset: a Reader consumes part (or all) of one arbitrary byte string, is Reset onto a second
// arbitrary byte string and must then behave exactly like a new Reader on it (C13 oracle: fresh object).
func FuzzC13Reset(f *testing.F) {
	for i := 0; i < 6; i++ {
		a, _, _, _ := smallStream(i).Build()
		b, _, _, _ := smallStream(i + 3).Build()
		f.Add(a, b, byte(i), byte(10*i))
		if len(a) > 6 {
			f.Add(a[:len(a)/2], b, byte(i), byte(3))
			f.Add(a, b[:len(b)-2], byte(i+8), byte(200))
		}
	}
	// a stream whose first match reaches before its own start, after a stream that left data behind
	far := synth.Stream{Blocks: []synth.BlockSpec{{Type: 1, N: 30, Seed: 2, Alpha: 4, MatchPct: 60}}, Fault: &synth.Fault{Kind: synth.FDistTooFar, Block: 0, At: 0, Arg: 5}, Tail: 40}
	a, _, _, _ := smallStream(1).Build()
	f.Add(a, far.Build().Bytes, byte(1), byte(5))
	f.Fuzz(func(t *testing.T, d1, d2 []byte, ctl, k byte) {
		if len(d1) > 1<<15 || len(d2) > 1<<15 {
			return
		}
		if d1 == nil {
			d1 = []byte{}
		}
		if d2 == nil {
			d2 = []byte{}
		}
		c := C13Case{Pkg: []string{"flate", "flate", "gzip", "zlib"}[ctl%4], Reads: []int{4096}}
		u := RUse{In: RInput{Stream: StreamSpec{Kind: "raw", Raw: d1}}, Plan: []string{"partial", "full", "none", "partial"}[(ctl>>2)%4], K: 1 + int(k)*int(k)}
		if ctl&16 != 0 {
			u.OwnBuf = 16
		}
		c.Before = []RUse{u}
		c.Next = RInput{Stream: StreamSpec{Kind: "raw", Raw: d2}}
		if ctl&32 != 0 {
			c.Chunks = []int{1}
		}
		if ctl&64 != 0 {
			c.SameSrc, c.Suffix = true, int(k)
			c.Before[0].OwnBuf = 0
		}
		done := begin("C13", c)
		defer done()
		if _, _, err := checkC13(c); err != nil {
			fuzzFail(t, "C13", c, err)
		}
	})
}
