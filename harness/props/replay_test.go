package props

import (
	"encoding/json"
	"errors"
	"fmt"
	"os"
	"testing"
)

// replayers maps a property id to its plain (non-rapid) checker.
var replayers = map[string]func(json.RawMessage) error{}

type replayFile struct {
	Property string          `json:"property"`
	Level    int             `json:"arch_level"`
	Error    string          `json:"error"`
	Case     json.RawMessage `json:"case"`
}

// TestReplay runs the cases named in VERIF_REPLAY (a ':'-separated list of files)
// through the plain checker of their property. A failing case prints a
// REPLAY-FAIL line; an oracle disagreement prints REPLAY-ORACLE.
func TestReplay(t *testing.T) {
	list := os.Getenv("VERIF_REPLAY")
	if list == "" {
		t.Skip("no VERIF_REPLAY")
	}
	for _, path := range splitList(list) {
		b, err := os.ReadFile(path)
		if err != nil {
			t.Fatalf("replay: %v", err)
		}
		var rf replayFile
		if err := json.Unmarshal(b, &rf); err != nil {
			t.Fatalf("replay %s: %v", path, err)
		}
		fn := replayers[rf.Property]
		if fn == nil {
			t.Fatalf("replay %s: no replayer for %q", path, rf.Property)
		}
		done := begin(rf.Property, rf.Case)
		err = fn(rf.Case)
		done()
		var oe *oracleError
		switch {
		case err == nil:
			fmt.Printf("REPLAY-PASS %s\n", path)
		case errors.As(err, &oe):
			fmt.Printf("REPLAY-ORACLE %s: %v\n", path, err)
			t.Errorf("oracle disagreement on %s", path)
		default:
			fmt.Printf("REPLAY-FAIL %s: %s\n", path, firstLine(err.Error()))
			t.Errorf("replay %s: %v", path, err)
		}
	}
}

func splitList(s string) (out []string) {
	cur := ""
	for _, r := range s {
		if r == ':' {
			if cur != "" {
				out = append(out, cur)
			}
			cur = ""
			continue
		}
		cur += string(r)
	}
	if cur != "" {
		out = append(out, cur)
	}
	return out
}

func firstLine(s string) string {
	for i, r := range s {
		if r == '\n' {
			return s[:i]
		}
	}
	return s
}
