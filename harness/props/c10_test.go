package props

import (
	"bytes"
	stdgzip "compress/gzip"
	stdzlib "compress/zlib"
	"encoding/json"
	"fmt"
	"io"
	"testing"

	"pgregory.net/rapid"

	"verifharness/gen"
	"verifharness/iox"
	"verifharness/refinflate"
	"verifharness/stats"
)

// C10: after Flush, all data written so far decodes from the bytes emitted so far.

type C10Case struct {
	Data gen.Recipe `json:"data"`
	Set  PSetting   `json:"set"`
	Ops  []gen.Op   `json:"ops"` // W/F; Close implied
}

func drawC10(t *rapid.T) C10Case {
	var c C10Case
	c.Set = drawPSetting(t, false, true)
	max := 200 << 10
	if thorough() {
		max = 600 << 10
	}
	n := 0
	switch rapid.IntRange(0, 5).Draw(t, "sizemode") {
	case 0:
		// flush exactly at a buffer-full point
		n = rapid.SampledFrom([]int{65536, 131072, 8450, 16900, 65794}).Draw(t, "T") + rapid.IntRange(0, 300).Draw(t, "tail")
	default:
		n = gen.DrawLen(t, "total", max)
	}
	c.Data = gen.DrawRecipeN(t, n)
	// flush positions
	var fl []int
	nf := rapid.IntRange(1, 4).Draw(t, "nflush")
	for i := 0; i < nf; i++ {
		switch rapid.IntRange(0, 4).Draw(t, "fmode") {
		case 0:
			fl = append(fl, 0)
		case 1:
			th := rapid.SampledFrom([]int{65536, 131072, 8450, 16900, 65794}).Draw(t, "fT")
			if th > n {
				th = n
			}
			fl = append(fl, th)
		case 2:
			fl = append(fl, n)
		default:
			fl = append(fl, rapid.IntRange(0, n).Draw(t, "fpos"))
		}
		if rapid.IntRange(0, 4).Draw(t, "dup") == 0 {
			fl = append(fl, fl[len(fl)-1])
		}
	}
	c.Ops = buildOps(n, fl, gen.DrawCuts(t, n, "w"), nil)
	return c
}

// flushPrefixCheck: z = bytes emitted so far, want = data written so far.
func flushPrefixCheck(set PSetting, z, want, dict []byte) error {
	var body *refinflate.Result
	switch set.Pkg {
	case "gzip":
		g := refinflate.ParseGzip(z, false)
		if g.Verdict != refinflate.CTruncated || g.Partial == nil || g.Partial.Inflate == nil {
			return fmt.Errorf("reference gzip parser on the flushed prefix: %v (%s)", g.Verdict, g.Reason)
		}
		body = g.Partial.Inflate
	case "zlib":
		zr := refinflate.ParseZlib(z, dict)
		if zr.Verdict != refinflate.CTruncated || zr.Inflate == nil {
			return fmt.Errorf("reference zlib parser on the flushed prefix: %v (%s)", zr.Verdict, zr.Reason)
		}
		body = zr.Inflate
	default:
		body = refinflate.Inflate(z, refinflate.Options{Dict: dict})
	}
	if body.Verdict == refinflate.Corrupt {
		return fmt.Errorf("bytes emitted at Flush are corrupt: %s at bit %d after %d of %d bytes", body.Reason, body.DefectBit, len(body.Out), len(want))
	}
	if body.Verdict == refinflate.Valid {
		return fmt.Errorf("bytes emitted at Flush already contain a final block")
	}
	if !bytes.Equal(body.Out, want) {
		return fmt.Errorf("bytes emitted at Flush decode to %d bytes, %d were written (first difference at %d)", len(body.Out), len(want), firstDiff(body.Out, want))
	}
	if !body.CleanCut {
		return fmt.Errorf("bytes emitted at Flush end inside a block or not on a byte boundary (decoder is left mid-block)")
	}
	// the standard library: same bytes, then "needs more input", not corruption
	var r io.Reader
	var err error
	switch set.Pkg {
	case "gzip":
		r, err = stdgzip.NewReader(bytes.NewReader(z))
	case "zlib":
		r, err = stdzlib.NewReaderDict(bytes.NewReader(z), dict)
	default:
		out, e, _ := stdInflate(z, dict)
		if e != io.ErrUnexpectedEOF || !bytes.Equal(out, want) {
			return fmt.Errorf("compress/flate on the flushed prefix: %d bytes, err=%v (want %d bytes then unexpected EOF)", len(out), e, len(want))
		}
		return nil
	}
	if err != nil {
		return fmt.Errorf("standard %s reader rejects the flushed prefix: %v", set.Pkg, err)
	}
	out, e := io.ReadAll(r)
	if e != io.ErrUnexpectedEOF || !bytes.Equal(out, want) {
		return fmt.Errorf("standard %s reader on the flushed prefix: %d bytes, err=%v (want %d bytes then unexpected EOF)", set.Pkg, len(out), e, len(want))
	}
	return nil
}

func checkC10(c C10Case) (labels []string, nontrivial bool, err error) {
	defer guardPanic(&err)
	data := c.Data.Bytes()
	dict := c.Set.dictBytes()
	sink := &iox.Sink{}
	w, err := newAnyWriter(sink, c.Set)
	if err != nil {
		return nil, false, err
	}
	off := 0
	flushWithData, writeAfterFlush, sawFlush := 0, false, false
	flushNothingPending, flushFirst := false, false
	lastFlushOff := -1
	for i, op := range c.Ops {
		switch op.K {
		case "W":
			n, e := writeReused(w, data[off:off+op.N])
			if e != nil || n != op.N {
				return nil, false, fmt.Errorf("op %d Write(%d) = (%d, %v)", i, op.N, n, e)
			}
			off += op.N
			if sawFlush && op.N > 0 {
				writeAfterFlush = true
			}
		case "F":
			if e := w.Flush(); e != nil {
				return nil, false, fmt.Errorf("op %d Flush = %v", i, e)
			}
			if e := flushPrefixCheck(c.Set, sink.Bytes(), data[:off], dict); e != nil {
				return nil, false, fmt.Errorf("op %d (Flush after %d bytes): %v", i, off, e)
			}
			if off > 0 {
				flushWithData++
			}
			if off == 0 {
				flushFirst = true
			}
			if off == lastFlushOff {
				flushNothingPending = true
			}
			lastFlushOff = off
			sawFlush = true
		}
	}
	if e := w.Close(); e != nil {
		return nil, false, fmt.Errorf("Close = %v", e)
	}
	if e := checkCompleteContainer(c.Set.Pkg, sink.Bytes(), data, dict); e != nil {
		return nil, false, fmt.Errorf("after Close: %v", e)
	}
	labels = append(labels, "setting:"+c.Set.String())
	if flushFirst {
		labels = append(labels, "flush-first")
	}
	if flushNothingPending {
		labels = append(labels, "flush-nothing-pending")
	}
	if c.Set.Level == -2 && lastFlushOff > 0 && lastFlushOff%65536 == 0 {
		labels = append(labels, "huffman-only-flush-at-k*64KiB")
	}
	if c.Set.delegatedP() {
		labels = append(labels, "delegated")
	}
	return labels, flushWithData >= 1 && writeAfterFlush && !c.Set.delegatedP(), nil
}

func TestC10(t *testing.T) {
	rapid.Check(t, func(t *rapid.T) {
		c := drawC10(t)
		if c.Set.Ctor == "dict" && knownActive("std-dict-stored-first-block") &&
			stdDictRoundTripBroken(c.Set.Level, c.Set.dictBytes(), c.Data.Bytes(), c.Ops) {
			stats.Exclude("C10", "std-dict-stored-first-block")
			return
		}
		done := begin("C10", c)
		defer done()
		labels, nt, err := checkC10(c)
		if err != nil {
			saveLast("C10", c, err)
			t.Fatalf("C10 violated: %v", err)
		}
		stats.Record("C10", stats.Digest(c), nt, labels, func() any { return c })
	})
}

// TestC10Ex: Flush right after the token-limit block cut: incompressible data whose size is swept
// around the points where 32768 tokens are reached (32768 bytes at one literal per token, 65536 at two).
func TestC10Ex(t *testing.T) {
	count := 0
	var sizes []int
	for n := 32740; n <= 32800; n++ {
		sizes = append(sizes, n)
	}
	for n := 65490; n <= 65560; n++ {
		sizes = append(sizes, n)
	}
	for _, n := range sizes {
		for _, set := range []PSetting{
			{Pkg: "flate", WSetting: WSetting{Ctor: "new", Level: 1}}, {Pkg: "flate", WSetting: WSetting{Ctor: "new", Level: 2}},
			{Pkg: "flate", WSetting: WSetting{Ctor: "4k", Level: 2}}, {Pkg: "gzip", WSetting: WSetting{Ctor: "new", Level: -1}},
		} {
			for pre := 0; pre < 2; pre++ {
				c := C10Case{Set: set, Data: gen.Recipe{Segs: []gen.Seg{{Kind: "rand", N: n + 10, A: 256, Seed: uint64(n)}}}}
				if pre == 1 {
					c.Ops = []gen.Op{{K: "W", N: 5}, {K: "F"}, {K: "W", N: n - 5}, {K: "F"}, {K: "W", N: 10}}
				} else {
					c.Ops = []gen.Op{{K: "W", N: n}, {K: "F"}, {K: "W", N: 10}}
				}
				done := begin("C10", c)
				labels, nt, err := checkC10(c)
				done()
				if err != nil {
					saveLast("C10", c, err)
					t.Fatalf("C10 violated (flush just past the token limit): %v", err)
				}
				stats.Record("C10", stats.Digest(c), nt, append(labels, "flush-just-past-token-limit"), func() any { return c })
				count++
			}
		}
	}
	stats.Exhaustive("C10", "incompressible data of n bytes, n in [32740,32800] and [65490,65560], Flush, 10 more bytes; 4 settings; with and without an earlier Flush", count)
}

func init() {
	replayers["C10"] = func(raw json.RawMessage) error {
		var c C10Case
		if err := json.Unmarshal(raw, &c); err != nil {
			return err
		}
		_, _, err := checkC10(c)
		return err
	}
}
