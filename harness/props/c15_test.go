package props

import (
	"bufio"
	"bytes"
	"encoding/json"
	"fmt"
	"io"
	"os"
	"testing"

	fflate "github.com/intel/fastgo/compress/flate"
	fgzip "github.com/intel/fastgo/compress/gzip"
	fzlib "github.com/intel/fastgo/compress/zlib"

	"pgregory.net/rapid"

	"verifharness/gen"
	"verifharness/iox"
	"verifharness/stats"
)

// C15: a failing source is reported as such and never as success or corruption.

type C15Case struct {
	Pkg      string   `json:"pkg"`
	Members  []Member `json:"members"` // flate/zlib: exactly one; gzip: 1-2 (multistream mode)
	ErrKind  int      `json:"err_kind"`
	FailWith bool     `json:"fail_with"` // error delivered together with the last good bytes
	Chunks   []int    `json:"chunks"`
	BufSize  int      `json:"buf_size"` // 0 plain source; else *bufio.Reader of that size
	Reads    []int    `json:"reads"`
	Once     bool     `json:"once,omitempty"`   // the source fails once and then carries on delivering (the Reader's error must still stick)
	OnlyK    int      `json:"only_k,omitempty"` // replay: just this k (-1 = all)
	Entry    string   `json:"entry,omitempty"`  // "" = constructor; "reset" = a Reader that has read part of another stream is Reset onto the failing source
}

func sourceErr(kind int) error {
	switch kind % 9 {
	case 8:
		// sentinel values of the packages the Readers are built on: as a source's error they are
		// errors like any other (bufio.Reader.Peek passes the source's error through unchanged)
		return bufio.ErrBufferFull
	case 7:
		return io.ErrNoProgress
	case 6:
		return io.ErrShortBuffer
	case 5:
		// a deadline-style error (Timeout() == true), as net.Conn / os.File report
		return &os.PathError{Op: "read", Path: "conn", Err: os.ErrDeadlineExceeded}
	case 4:
		// an error value that wraps io.EOF is still not io.EOF
		return fmt.Errorf("connection reset while reading: %w", io.EOF)
	case 0:
		return errSourceBroke
	case 1:
		return io.ErrClosedPipe
	case 2:
		return io.ErrUnexpectedEOF
	default:
		return &os.PathError{Op: "read", Path: "/dev/sda", Err: fmt.Errorf("input/output error")}
	}
}

func drawC15(t *rapid.T) C15Case {
	var c C15Case
	c.OnlyK = -1
	c.Pkg = rapid.SampledFrom([]string{"flate", "flate", "gzip", "zlib"}).Draw(t, "pkg")
	n := 1
	if c.Pkg == "gzip" {
		n = rapid.SampledFrom([]int{1, 1, 2}).Draw(t, "nmembers")
	}
	for i := 0; i < n; i++ {
		m := drawMember(t, c.Pkg, 2000)
		if rapid.IntRange(0, 9).Draw(t, "bigger") == 0 {
			m.Data = gen.DrawRecipe(t, 70<<10)
			m.Ops = nil
		}
		if m.Hdr != nil && len(m.Hdr.Extra) > 40 {
			m.Hdr.Extra = m.Hdr.Extra[:40]
		}
		if m.Hdr != nil && len(m.Hdr.Name) > 40 {
			m.Hdr.Name = "name"
			m.Hdr.Comment = "comment"
		}
		c.Members = append(c.Members, m)
	}
	if c.Pkg == "zlib" && rapid.IntRange(0, 2).Draw(t, "zdict") == 0 {
		// FDICT streams: the dictionary id is read from the source too
		d := gen.Recipe{Segs: []gen.Seg{{Kind: "text", N: rapid.IntRange(1, 400).Draw(t, "dlen"), Seed: 11}}}
		c.Members[0].Dict = &d
		c.Members[0].Enc = "std"
		if stdZlibDictBroken(c.Members[0].Level, recipeBytes(&d), c.Members[0].Data.Bytes(), c.Members[0].Ops) {
			c.Members[0].Dict = nil
		}
	}
	if c.Pkg == "gzip" {
		for i := range c.Members {
			c.Members[i].HCRC = rapid.IntRange(0, 3).Draw(t, "hcrc") == 0
		}
	}
	if rapid.IntRange(0, 2).Draw(t, "entry") == 0 {
		c.Entry = "reset"
	}
	c.ErrKind = rapid.IntRange(0, 8).Draw(t, "errkind")
	c.FailWith = rapid.Bool().Draw(t, "failwith")
	// a recovering source only together with "error alone": when an error arrives together with exactly
	// the bytes an io.ReadFull was waiting for, io.ReadFull itself drops it (standard library semantics,
	// identical in compress/gzip), so a source that then recovers never shows the error again
	c.Once = !c.FailWith && rapid.IntRange(0, 2).Draw(t, "once") == 0
	if rapid.Bool().Draw(t, "chunked") {
		k := rapid.IntRange(1, 4).Draw(t, "nch")
		for i := 0; i < k; i++ {
			c.Chunks = append(c.Chunks, rapid.SampledFrom([]int{1, 2, 7, 16, 100, 1000, 4096}).Draw(t, "ch"))
		}
	}
	c.BufSize = rapid.SampledFrom([]int{0, 0, 16, 64, 4096}).Draw(t, "bufsize")
	c.Reads = drawReadSizes(t)
	return c
}

func checkC15(c C15Case, record func(k int, nontrivial bool, labels []string)) (err error) {
	defer guardPanic(&err)
	var z []byte
	var payload []byte
	if c.Pkg == "flate" {
		m := c.Members[0]
		zz, _, e := flushTrace("flate", Member{Enc: m.Enc, Level: m.Level, Data: m.Data, Ops: opsOrOne(m)})
		if e != nil {
			return e
		}
		z, payload = zz, m.Data.Bytes()
	} else {
		var e error
		z, _, payload, e = buildMembers(c.Pkg, c.Members)
		if e != nil {
			return e
		}
	}
	want := sourceErr(c.ErrKind)
	var ks []int
	maxK := len(z) - 1
	if c.Pkg == "gzip" {
		maxK = len(z) // multistream: failure while probing for the next member
	}
	switch {
	case c.OnlyK >= 0:
		ks = []int{c.OnlyK}
	case maxK <= 400:
		for k := 0; k <= maxK; k++ {
			ks = append(ks, k)
		}
	default:
		seen := map[int]bool{}
		add := func(k int) {
			if k >= 0 && k <= maxK && !seen[k] {
				seen[k] = true
				ks = append(ks, k)
			}
		}
		for k := 0; k < 40; k++ {
			add(k)
			add(maxK - k)
		}
		for k := 40; k < maxK; k += maxK/150 + 1 {
			add(k)
		}
		for _, b := range []int{4095, 4096, 4097, 8192} {
			add(b)
		}
	}
	for _, k := range ks {
		src := &iox.Chunked{Data: z, Sizes: c.Chunks, FailAt: k, FailErr: want, FailWith: c.FailWith, FailOnce: c.Once}
		if len(c.Chunks) == 1 {
			src.Rest = c.Chunks[0]
		}
		var under io.Reader = src
		if c.BufSize > 0 {
			under = newBufio(src, c.BufSize)
		}
		what := fmt.Sprintf("%s Reader, source fails with %q after delivering %d of %d bytes", c.Pkg, want, k, len(z))
		var r io.Reader
		var openErr error
		var zdict []byte
		if c.Pkg == "zlib" {
			zdict = recipeBytes(c.Members[0].Dict)
		}
		if c.Entry == "reset" {
			// a Reader that stopped in the middle of another (valid) stream
			other, _ := Member{Enc: "std", Level: 6, Data: genText(3000, 5)}.build(c.Pkg)
			if c.Pkg == "flate" {
				other, _, _ = flushTrace("flate", Member{Enc: "std", Level: 6, Data: genText(3000, 5), Ops: []gen.Op{{K: "W", N: 3000}}})
			}
			few := make([]byte, 100)
			switch c.Pkg {
			case "gzip":
				gz, e := fgzip.NewReader(bytes.NewReader(other))
				if e != nil {
					return &oracleError{"C15: cannot open the earlier stream: " + e.Error()}
				}
				io.ReadFull(gz, few)
				r, openErr = gz, gz.Reset(under)
			case "zlib":
				zr, e := fzlib.NewReader(bytes.NewReader(other))
				if e != nil {
					return &oracleError{"C15: cannot open the earlier stream: " + e.Error()}
				}
				io.ReadFull(zr, few)
				r, openErr = zr, zr.(fzlib.Resetter).Reset(under, zdict)
			default:
				fr := fflate.NewReader(bytes.NewReader(other))
				io.ReadFull(fr, few)
				r, openErr = fr, fr.(fflate.Resetter).Reset(under, nil)
			}
		} else {
			switch c.Pkg {
			case "gzip":
				gz, e := fgzip.NewReader(under)
				r, openErr = gz, e
			case "zlib":
				zr, e := fzlib.NewReaderDict(under, zdict)
				r, openErr = zr, e
			default:
				r = fflate.NewReader(under)
			}
		}
		var out []byte
		rerr := openErr
		if openErr == nil {
			out, rerr = readAllChunks(r, c.Reads, len(payload)+1024)
		}
		if rerr != want {
			return fmt.Errorf("%s: Reader ended with %q (%T) after %d bytes instead of the source's error", what, rerr, rerr, len(out))
		}
		if !bytes.HasPrefix(payload, out) {
			return fmt.Errorf("%s: bytes returned before the error are not a prefix of the data (first difference at %d of %d)", what, firstDiff(out, payload), len(out))
		}
		if openErr == nil {
			if e := readerContractTail(r, want); e != nil {
				return fmt.Errorf("%s: %v", what, e)
			}
		}
		if record != nil {
			record(k, k >= 1, []string{"pkg:" + c.Pkg, fmt.Sprintf("bufio:%d", c.BufSize), fmt.Sprintf("errkind:%d", c.ErrKind), "entry:" + c.Entry})
		}
	}
	return nil
}

func opsOrOne(m Member) []gen.Op {
	if m.Ops != nil {
		return m.Ops
	}
	return []gen.Op{{K: "W", N: m.Data.Len()}}
}

func TestC15(t *testing.T) {
	rapid.Check(t, func(t *rapid.T) {
		c := drawC15(t)
		done := begin("C15", c)
		defer done()
		d := stats.Digest(c)
		err := checkC15(c, func(k int, nt bool, labels []string) {
			stats.Record("C15", d*31+uint64(k), nt, labels, func() any { cc := c; cc.OnlyK = k; return cc })
		})
		if err != nil {
			saveLast("C15", c, err)
			t.Fatalf("C15 violated: %v", err)
		}
	})
}

func init() {
	replayers["C15"] = func(raw json.RawMessage) error {
		var c C15Case
		if err := json.Unmarshal(raw, &c); err != nil {
			return err
		}
		c.OnlyK = -1
		return checkC15(c, nil)
	}
}
