package props

import (
	"bytes"
	stdflate "compress/flate"
	stdgzip "compress/gzip"
	stdzlib "compress/zlib"
	"fmt"
	"hash/crc32"
	"io"
	"time"

	fgzip "github.com/intel/fastgo/compress/gzip"
	fzlib "github.com/intel/fastgo/compress/zlib"

	"pgregory.net/rapid"

	"verifharness/gen"
	"verifharness/refinflate"
)

// Member is one gzip member / zlib stream written by a real Writer.
type Member struct {
	Enc   string      `json:"enc"` // fast | std | raw (body laid out by the harness: prefix by compress/flate + Flush, or stored blocks, then a FINAL STORED block carrying the last Level bytes; no Writer emits that shape)
	Level int         `json:"level"`
	Data  gen.Recipe  `json:"data"`
	Ops   []gen.Op    `json:"ops,omitempty"` // W/F (nil = one Write)
	Hdr   *GzHdr      `json:"hdr,omitempty"`
	Dict  *gen.Recipe `json:"dict,omitempty"` // zlib only
	HCRC  bool        `json:"hcrc,omitempty"` // gzip: add the optional header CRC16 (no Writer emits it; built by the harness)
}

type hdrWriter interface {
	anyWriter
}

func newContainerWriter(pkg, enc string, dst io.Writer, level int, hdr *GzHdr, dict []byte) (anyWriter, error) {
	switch pkg + "/" + enc {
	case "gzip/fast":
		w, err := fgzip.NewWriterLevel(dst, level)
		if err != nil {
			return nil, err
		}
		applyHdr(hdr, &w.Name, &w.Comment, &w.Extra, &w.ModTime, &w.OS)
		return w, nil
	case "gzip/std":
		w, err := stdgzip.NewWriterLevel(dst, level)
		if err != nil {
			return nil, err
		}
		applyHdr(hdr, &w.Name, &w.Comment, &w.Extra, &w.ModTime, &w.OS)
		return w, nil
	case "zlib/fast":
		return fzlib.NewWriterLevelDict(dst, level, dict)
	case "zlib/std":
		return stdzlib.NewWriterLevelDict(dst, level, dict)
	}
	return nil, fmt.Errorf("harness: unknown writer %s/%s", pkg, enc)
}

// writeMember appends the member to dst using w (already constructed or reset).
func writeMemberOps(w anyWriter, data []byte, ops []gen.Op) error {
	if ops == nil {
		ops = []gen.Op{{K: "W", N: len(data)}}
	}
	off := 0
	for i, op := range ops {
		switch op.K {
		case "W":
			n, err := writeReused(w, data[off:off+op.N])
			if err != nil || n != op.N {
				return fmt.Errorf("op %d Write(%d) = (%d, %v)", i, op.N, n, err)
			}
			off += op.N
		case "F":
			if err := w.Flush(); err != nil {
				return fmt.Errorf("op %d Flush = %v", i, err)
			}
		}
	}
	return w.Close()
}

func (m Member) build(pkg string) (z []byte, err error) {
	defer guardPanic(&err)
	if m.Enc == "raw" && pkg == "gzip" {
		return m.buildRawGzip()
	}
	var b bytes.Buffer
	w, err := newContainerWriter(pkg, m.Enc, &b, m.Level, m.Hdr, recipeBytes(m.Dict))
	if err != nil {
		return nil, err
	}
	if err := writeMemberOps(w, m.Data.Bytes(), m.Ops); err != nil {
		return nil, err
	}
	z = b.Bytes()
	if m.HCRC && pkg == "gzip" {
		return addHeaderCRC(z)
	}
	return z, nil
}

// addHeaderCRC sets FHCRC on a single gzip member and inserts the CRC16 of its header.
func addHeaderCRC(z []byte) ([]byte, error) {
	g := refinflate.ParseGzip(z, false)
	if g.Verdict != refinflate.CValid || len(g.Members) != 1 {
		return nil, fmt.Errorf("harness: cannot add FHCRC: %v", g.Verdict)
	}
	hl := g.Members[0].BodyStart
	hdr := append([]byte(nil), z[:hl]...)
	hdr[3] |= 2
	c := crc32.ChecksumIEEE(hdr)
	out := append(hdr, byte(c), byte(c>>8))
	return append(out, z[hl:]...), nil
}

func latin1String(t *rapid.T, label string) string {
	n := rapid.SampledFrom([]int{0, 0, 1, 5, 100, 511}).Draw(t, label+"_len")
	rs := make([]rune, n)
	for i := range rs {
		rs[i] = rune(rapid.IntRange(1, 255).Draw(t, label+"_ch"))
	}
	return string(rs)
}

func drawGzHdr(t *rapid.T) *GzHdr {
	if rapid.IntRange(0, 3).Draw(t, "nohdr") == 0 {
		return nil
	}
	h := &GzHdr{Name: latin1String(t, "name"), Comment: latin1String(t, "comment")}
	switch rapid.IntRange(0, 3).Draw(t, "xkind") {
	case 1:
		h.HasX = true
	case 2:
		h.HasX = true
		n := rapid.SampledFrom([]int{1, 10, 300, 65535}).Draw(t, "xlen")
		h.Extra = bytes.Repeat([]byte{byte(rapid.IntRange(0, 255).Draw(t, "xbyte"))}, n)
	}
	if rapid.Bool().Draw(t, "hasmtime") {
		h.MTime = int64(rapid.Uint32Range(1, 1<<32-1).Draw(t, "mtime"))
	}
	h.OS = byte(rapid.IntRange(0, 255).Draw(t, "os"))
	return h
}

func drawMember(t *rapid.T, pkg string, max int) Member {
	var m Member
	m.Enc = rapid.SampledFrom([]string{"fast", "fast", "std"}).Draw(t, "enc")
	m.Level = rapid.SampledFrom([]int{-2, -1, -1, 0, 1, 1, 2, 2, 3, 6, 9, 4, 5, 7, 8}).Draw(t, "level")
	switch rapid.IntRange(0, 4).Draw(t, "dsize") {
	case 0:
		m.Data = gen.Recipe{}
	default:
		m.Data = gen.DrawRecipe(t, max)
	}
	if rapid.Bool().Draw(t, "withops") {
		m.Ops = gen.DrawWriteOps(t, m.Data.Len(), true)
	}
	if pkg == "gzip" {
		m.Hdr = drawGzHdr(t)
	}
	return m
}

// expectedHdr is what a gzip Reader must report for a member written with h.
func expectedHdr(h *GzHdr) (name, comment string, extra []byte, mtime int64, os byte) {
	if h == nil {
		return "", "", nil, 0, 255
	}
	extra = nil
	if h.HasX {
		extra = h.Extra
		if extra == nil {
			extra = []byte{}
		}
	}
	return h.Name, h.Comment, extra, h.MTime, h.OS
}

func hdrMatches(h *GzHdr, name, comment string, extra []byte, mt time.Time, os byte) error {
	en, ec, ex, em, eo := expectedHdr(h)
	gm := int64(0)
	if !mt.IsZero() {
		gm = mt.Unix()
	}
	if name != en || comment != ec || !bytes.Equal(extra, ex) || gm != em || os != eo {
		return fmt.Errorf("header fields read back {name=%q comment=%q extra=%s mtime=%d os=%d}, written {name=%q comment=%q extra=%s mtime=%d os=%d}",
			trunc(name), trunc(comment), hexPrefix(extra, 8), gm, os, trunc(en), trunc(ec), hexPrefix(ex, 8), em, eo)
	}
	return nil
}

func trunc(s string) string {
	if len(s) > 24 {
		return s[:24] + "…"
	}
	return s
}


// buildRawGzip lays out a gzip member whose DEFLATE body ends in a final stored block that carries data:
// header as compress/gzip writes it for m.Hdr, then the first len-tail payload bytes (tail = m.Level, clamped)
// either as stored blocks (len(Ops)==0) or compressed by compress/flate and flushed, then the tail as one
// stored block with BFINAL set, then CRC-32 and size.
func (m Member) buildRawGzip() ([]byte, error) {
	data := m.Data.Bytes()
	empty, err := Member{Enc: "std", Level: 6, Hdr: m.Hdr}.build("gzip")
	if err != nil {
		return nil, err
	}
	g := refinflate.ParseGzip(empty, false)
	if g.Verdict != refinflate.CValid || len(g.Members) != 1 {
		return nil, fmt.Errorf("harness: raw member header: %v", g.Verdict)
	}
	z := append([]byte(nil), empty[:g.Members[0].BodyStart]...)
	tail := m.Level
	if tail < 0 {
		tail = 0
	}
	if tail > len(data) {
		tail = len(data)
	}
	if tail > 65535 {
		tail = 65535
	}
	pre := data[:len(data)-tail]
	if len(m.Ops) == 0 {
		for len(pre) > 0 {
			n := len(pre)
			if n > 65535 {
				n = 65535
			}
			z = append(z, 0, byte(n), byte(n>>8), ^byte(n), ^byte(n>>8))
			z = append(z, pre[:n]...)
			pre = pre[n:]
		}
	} else if len(pre) > 0 {
		var b bytes.Buffer
		fw, _ := stdflate.NewWriter(&b, 1+len(m.Ops)%9)
		fw.Write(pre)
		fw.Flush()
		z = append(z, b.Bytes()...)
	}
	z = append(z, 1, byte(tail), byte(tail>>8), ^byte(tail), ^byte(tail>>8))
	z = append(z, data[len(data)-tail:]...)
	c := crc32.ChecksumIEEE(data)
	n := uint32(len(data))
	z = append(z, byte(c), byte(c>>8), byte(c>>16), byte(c>>24), byte(n), byte(n>>8), byte(n>>16), byte(n>>24))
	if m.HCRC {
		return addHeaderCRC(z)
	}
	return z, nil
}
