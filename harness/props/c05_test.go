package props

import (
	"bufio"
	"bytes"
	"encoding/json"
	"fmt"
	"io"
	"strings"
	"testing"

	fflate "github.com/intel/fastgo/compress/flate"
	fgzip "github.com/intel/fastgo/compress/gzip"
	fzlib "github.com/intel/fastgo/compress/zlib"

	"pgregory.net/rapid"

	"verifharness/gen"
	"verifharness/iox"
	"verifharness/stats"
)

// C05: after io.EOF the source is positioned exactly at the end of the DEFLATE stream.

type C05Case struct {
	Pkg     string     `json:"pkg"` // flate | gzip | zlib
	Stream  StreamSpec `json:"stream"`
	Hdr     *GzHdr     `json:"hdr,omitempty"`
	Suffix  []byte     `json:"suffix"`
	SrcKind string     `json:"src_kind"` // bufio | bytes.Reader | bytes.Buffer | strings.Reader | custom
	BufSize int        `json:"buf_size"`
	Ctor    string     `json:"ctor"` // new | reset
	Reads   []int      `json:"reads"`
	// CutRel != nil (bufio sources): the underlying reader never lets one Read cross the offset
	// (end of the DEFLATE data) + *CutRel
	CutRel *int `json:"cut_rel,omitempty"`
}

func drawSuffix(t *rapid.T) []byte {
	n := rapid.SampledFrom([]int{0, 1, 2, 7, 8, 9, 100, 1000, 4095, 4096, 4097, 5000}).Draw(t, "suflen")
	kind := rapid.IntRange(0, 3).Draw(t, "sufkind")
	out := make([]byte, n)
	for i := range out {
		switch kind {
		case 0:
			out[i] = 0
		case 1:
			out[i] = 0xff
		case 2:
			out[i] = byte(i*131 + 7)
		default:
			hdr := []byte{0x1f, 0x8b, 8, 0, 0, 0, 0, 0, 0, 0xff, 0x78, 0x9c, 1, 0, 0, 0xff, 0xff}
			out[i] = hdr[i%len(hdr)]
		}
	}
	return out
}

func drawC05(t *rapid.T) C05Case {
	var c C05Case
	c.Pkg = rapid.SampledFrom([]string{"flate", "flate", "gzip", "zlib"}).Draw(t, "pkg")
	c.Stream = drawValidStream(t, 64<<10)
	if c.Pkg == "gzip" && rapid.Bool().Draw(t, "hdr") {
		c.Hdr = &GzHdr{Name: rapid.StringMatching(`[a-z]{0,6}`).Draw(t, "name"), Comment: rapid.StringMatching(`[a-z]{0,6}`).Draw(t, "comment")}
	}
	c.Suffix = drawSuffix(t)
	if rapid.IntRange(0, 4).Draw(t, "past64k") == 0 {
		// decoded size just past the 64 KiB output window (or a later 32 KiB slide), tiny suffix:
		// the decoder stops on a full window with look-ahead bytes in its bit buffer
		n := 65536 + 32768*rapid.IntRange(0, 2).Draw(t, "k") + rapid.IntRange(0, 40).Draw(t, "delta")
		data := gen.Recipe{Segs: []gen.Seg{gen.DrawSeg(t, n)}}
		set := WSetting{Ctor: "new", Level: rapid.SampledFrom([]int{-2, 1, 2, 6, 0}).Draw(t, "plevel")}
		kind := "std"
		if set.Level != 6 && set.Level != 0 && rapid.Bool().Draw(t, "pfast") {
			kind = "fast"
		}
		c.Stream = StreamSpec{Kind: kind, Data: &data, Set: &set, Ops: []gen.Op{{K: "W", N: n}}}
		c.Suffix = c.Suffix[:0]
		for i := 0; i < rapid.IntRange(1, 2).Draw(t, "tiny"); i++ {
			c.Suffix = append(c.Suffix, byte(0xA0+i))
		}
		if rapid.Bool().Draw(t, "finalstored") {
			// the stream ends in a final stored block WITH data, and the output window fills k bytes
			// before the end: the last k bytes come out of the bit buffer / look-ahead after a
			// window-full continuation
			k := rapid.SampledFrom([]int{1, 1, 2, 2, 3, 3, 4, 5, 7, 8, 9, 40}).Draw(t, "fsk")
			n = 65536*rapid.IntRange(1, 3).Draw(t, "fswin") + k
			data = gen.Recipe{Segs: []gen.Seg{gen.DrawSeg(t, n)}}
			set.Level = rapid.SampledFrom([]int{0, 1, 6, 9}).Draw(t, "fslevel")
			c.Stream = StreamSpec{Kind: "std", Data: &data, Set: &set, Ops: []gen.Op{{K: "W", N: n}},
				Tail: rapid.SampledFrom([]int{k, k, k + 1, k + 5, 300, 65535}).Draw(t, "fstail")}
			cut := rapid.IntRange(-9, 9).Draw(t, "cutrel")
			c.CutRel = &cut
		}
	}
	c.SrcKind = rapid.SampledFrom([]string{"bufio", "bufio", "bufio", "bufio", "bytes.Reader", "bytes.Buffer", "strings.Reader", "custom"}).Draw(t, "srckind")
	c.BufSize = rapid.SampledFrom([]int{16, 17, 31, 64, 100, 327, 328, 329, 4095, 4096, 4097, 65536}).Draw(t, "bufsize")
	c.Ctor = rapid.SampledFrom([]string{"new", "reset"}).Draw(t, "ctor")
	if c.CutRel != nil {
		c.SrcKind = "bufio"
		if rapid.Bool().Draw(t, "bigbufio") {
			c.BufSize = 1 << 20
		}
	}
	c.Reads = drawReadSizes(t)
	return c
}

type restSource interface {
	io.Reader
}

func checkC05(c C05Case) (labels []string, nontrivial bool, err error) {
	defer guardPanic(&err)
	z, err := buildContainer(c.Pkg, RInput{Stream: c.Stream, Hdr: c.Hdr})
	if err != nil {
		return nil, false, err
	}
	if _, _, e := validStreamOracle(c.Stream); e != nil {
		return nil, false, e
	}
	all := append(append([]byte(nil), z...), c.Suffix...)
	var src io.Reader
	switch c.SrcKind {
	case "bufio":
		cut := 0
		if c.CutRel != nil {
			cut = len(z) - map[string]int{"gzip": 8, "zlib": 4}[c.Pkg] + *c.CutRel
		}
		src = bufio.NewReaderSize(cutSource(bytes.NewReader(all), cut), c.BufSize)
	case "bytes.Reader":
		src = bytes.NewReader(all)
	case "bytes.Buffer":
		src = bytes.NewBuffer(all)
	case "strings.Reader":
		src = strings.NewReader(string(all))
	default:
		src = &iox.ByteSrc{Data: all}
	}
	var r io.Reader
	dummy, err2 := buildContainer(c.Pkg, RInput{Stream: smallStream(0)})
	if err2 != nil {
		return nil, false, err2
	}
	switch c.Pkg {
	case "flate":
		if c.Ctor == "new" {
			r = fflate.NewReader(src)
		} else {
			fr := fflate.NewReader(bytes.NewReader(dummy))
			io.Copy(io.Discard, fr)
			if e := fr.(fflate.Resetter).Reset(src, nil); e != nil {
				return nil, false, fmt.Errorf("Reset: %v", e)
			}
			r = fr
		}
	case "gzip":
		var gz *fgzip.Reader
		var e error
		if c.Ctor == "new" {
			gz, e = fgzip.NewReader(src)
		} else {
			gz, e = fgzip.NewReader(bytes.NewReader(dummy))
			if e == nil {
				io.Copy(io.Discard, gz)
				e = gz.Reset(src)
			}
		}
		if e != nil {
			return nil, false, fmt.Errorf("gzip reader on a valid member: %v", e)
		}
		gz.Multistream(false)
		r = gz
	default:
		var zr io.ReadCloser
		var e error
		if c.Ctor == "new" {
			zr, e = fzlib.NewReader(src)
		} else {
			zr, e = fzlib.NewReader(bytes.NewReader(dummy))
			if e == nil {
				io.Copy(io.Discard, zr)
				e = zr.(fzlib.Resetter).Reset(src, nil)
			}
		}
		if e != nil {
			return nil, false, fmt.Errorf("zlib reader on a valid stream: %v", e)
		}
		r = zr
	}
	_, rerr := readAllChunks(r, c.Reads, 0)
	if rerr != io.EOF {
		return nil, false, fmt.Errorf("%s reader on a valid stream followed by %d other bytes (source %s/%d, %s): ended with %v", c.Pkg, len(c.Suffix), c.SrcKind, c.BufSize, c.Ctor, rerr)
	}
	rest, _ := io.ReadAll(src)
	if !bytes.Equal(rest, c.Suffix) {
		return nil, false, fmt.Errorf("%s reader (%s, source %s/%d): after io.EOF the source still holds %d bytes, but %d bytes follow the stream (source over-read by %d)", c.Pkg, c.Ctor, c.SrcKind, c.BufSize, len(rest), len(c.Suffix), len(c.Suffix)-len(rest))
	}
	labels = append(labels, "pkg:"+c.Pkg, "src:"+c.SrcKind, "ctor:"+c.Ctor)
	if c.SrcKind == "bufio" {
		labels = append(labels, fmt.Sprintf("bufio:%d", c.BufSize))
	}
	if c.Stream.Tail > 0 {
		labels = append(labels, "stream-ends-in-final-stored-block-with-data")
	}
	if c.CutRel != nil {
		labels = append(labels, "source-chunk-boundary-near-stream-end")
	}
	return labels, len(c.Suffix) >= 1, nil
}

func TestC05(t *testing.T) {
	rapid.Check(t, func(t *rapid.T) {
		c := drawC05(t)
		if c.SrcKind != "bufio" && knownActive("bytereader-sources-overread") {
			stats.Exclude("C05", "bytereader-sources-overread")
			c.SrcKind = "bufio"
		}
		done := begin("C05", c)
		defer done()
		labels, nt, err := checkC05(c)
		if err != nil {
			saveLast("C05", c, err)
			t.Fatalf("C05 violated: %v", err)
		}
		stats.Record("C05", stats.Digest(c), nt, labels, func() any { return c })
	})
}

func init() {
	replayers["C05"] = func(raw json.RawMessage) error {
		var c C05Case
		if err := json.Unmarshal(raw, &c); err != nil {
			return err
		}
		_, _, err := checkC05(c)
		return err
	}
}
