package props

import (
	"bytes"
	"encoding/json"
	"errors"
	"fmt"
	"io"
	"testing"

	fgzip "github.com/intel/fastgo/compress/gzip"
	fzlib "github.com/intel/fastgo/compress/zlib"

	"pgregory.net/rapid"

	"verifharness/gen"
	"verifharness/refinflate"
	"verifharness/stats"
)

// C07: gzip/zlib Readers never report success for data that fails its checksum.

type C07Case struct {
	Pkg     string     `json:"pkg"` // gzip | zlib
	Members []Member   `json:"members"`
	Mut     []Mutation `json:"mut"` // corruption (flip/sub) or a single trunc
	Reads   []int      `json:"reads"`
	BufSrc  int        `json:"buf_src"`
	Single  bool       `json:"single,omitempty"` // gzip: Multistream(false): only the first member is read
	Raw     []byte     `json:"raw,omitempty"`    // instead of Members+Mut: the input bytes themselves (native fuzz target)
}

func buildMembers(pkg string, ms []Member) (z []byte, bounds []int, payload []byte, err error) {
	for _, m := range ms {
		b, e := m.build(pkg)
		if e != nil {
			return nil, nil, nil, e
		}
		z = append(z, b...)
		bounds = append(bounds, len(z))
		payload = append(payload, m.Data.Bytes()...)
	}
	return
}

func drawC07(t *rapid.T) C07Case {
	var c C07Case
	c.Pkg = rapid.SampledFrom([]string{"gzip", "gzip", "zlib"}).Draw(t, "pkg")
	n := 1
	if c.Pkg == "gzip" {
		n = rapid.SampledFrom([]int{1, 1, 2, 3}).Draw(t, "nmembers")
	}
	for i := 0; i < n; i++ {
		m := drawMember(t, c.Pkg, 4096)
		if rapid.IntRange(0, 9).Draw(t, "bigger") == 0 {
			m.Data = gen.DrawRecipe(t, 80<<10)
			m.Ops = nil
		}
		if m.Hdr != nil && len(m.Hdr.Extra) > 300 {
			m.Hdr.Extra = m.Hdr.Extra[:300]
		}
		c.Members = append(c.Members, m)
	}
	if rapid.IntRange(0, 3).Draw(t, "trunc") == 0 {
		c.Mut = []Mutation{{Kind: "trunc", Pos: rapid.IntRange(0, 1<<20).Draw(t, "cut")}}
	} else {
		k := rapid.SampledFrom([]int{1, 1, 2, 3}).Draw(t, "nmut")
		for i := 0; i < k; i++ {
			m := Mutation{Kind: rapid.SampledFrom([]string{"flip", "flip", "sub"}).Draw(t, "mkind"), Val: rapid.IntRange(0, 255).Draw(t, "mval")}
			// region: anywhere, or the last 8 bytes (trailer), or the first 12 (header)
			switch rapid.IntRange(0, 3).Draw(t, "region") {
			case 0:
				m.Pos = -1 - rapid.IntRange(0, 63).Draw(t, "tailbit") // from the end
			case 1:
				m.Pos = rapid.IntRange(0, 95).Draw(t, "headbit")
			default:
				m.Pos = rapid.IntRange(0, 1<<22).Draw(t, "anybit")
			}
			c.Mut = append(c.Mut, m)
		}
	}
	c.Reads = drawReadSizes(t)
	c.BufSrc = rapid.SampledFrom([]int{0, 0, 16, 4096}).Draw(t, "bufsrc")
	if c.Pkg == "zlib" && rapid.IntRange(0, 2).Draw(t, "zdict") == 0 {
		d := gen.Recipe{Segs: []gen.Seg{{Kind: "text", N: rapid.IntRange(1, 600).Draw(t, "dictlen"), Seed: 8}}}
		c.Members[0].Dict = &d
	}
	if c.Pkg == "gzip" {
		c.Single = rapid.IntRange(0, 2).Draw(t, "single") == 0
		for i := range c.Members {
			c.Members[i].HCRC = rapid.IntRange(0, 2).Draw(t, "hcrc") == 0
		}
	}
	return c
}

func applyContainerMut(z []byte, muts []Mutation) []byte {
	z = append([]byte(nil), z...)
	for _, m := range muts {
		if len(z) == 0 {
			break
		}
		switch m.Kind {
		case "trunc":
			z = z[:m.Pos%len(z)]
		case "flip":
			nb := len(z) * 8
			p := m.Pos % nb
			if m.Pos < 0 {
				p = nb - 1 - ((-m.Pos - 1) % nb) // counted from the end
			}
			z[p/8] ^= 1 << uint(p%8)
		case "sub":
			nb := len(z) * 8
			p := m.Pos % nb
			if m.Pos < 0 {
				p = nb - 1 - ((-m.Pos - 1) % nb)
			}
			z[p/8] = byte(m.Val)
		}
	}
	return z
}

func allowedContainerErr(err error) bool {
	if err == io.ErrUnexpectedEOF || isCorrupt(err) {
		return true
	}
	return errors.Is(err, fgzip.ErrChecksum) || errors.Is(err, fgzip.ErrHeader) || errors.Is(err, fzlib.ErrChecksum) || errors.Is(err, fzlib.ErrHeader) || errors.Is(err, fzlib.ErrDictionary)
}

// canaryReadAll drains r like readAllChunks but pre-fills every destination
// buffer with a canary pattern and checks that p[:n] was really written.
func canaryReadAll(r io.Reader, sizes []int) (out []byte, err error) {
	if len(sizes) == 0 {
		sizes = []int{4096}
	}
	zero := 0
	for i := 0; ; i++ {
		sz := sizes[i%len(sizes)]
		p := make([]byte, sz+8)
		for k := range p {
			p[k] = 0xC5
		}
		n, e := r.Read(p[:sz])
		if n < 0 || n > sz {
			return out, fmt.Errorf("Read returned n=%d for a %d-byte buffer (error %v)", n, sz, e)
		}
		for k := sz; k < len(p); k++ {
			if p[k] != 0xC5 {
				return out, fmt.Errorf("Read wrote past the %d-byte buffer it was given", sz)
			}
		}
		out = append(out, p[:n]...)
		if e != nil {
			return out, e
		}
		if n == 0 {
			zero++
			if zero > 10000 {
				return out, errLivelock
			}
		} else {
			zero = 0
		}
	}
}

func checkC07(c C07Case) (labels []string, nontrivial bool, err error) {
	defer guardPanic(&err)
	good, bounds, payload, err := buildMembers(c.Pkg, c.Members)
	if err != nil {
		return nil, false, err
	}
	z := applyContainerMut(good, c.Mut)
	if c.Raw != nil {
		good, z = c.Raw, c.Raw
	}
	var zdict []byte
	if c.Pkg == "zlib" && len(c.Members) > 0 {
		zdict = recipeBytes(c.Members[0].Dict)
	}
	isTrunc := len(c.Mut) == 1 && c.Mut[0].Kind == "trunc"
	// reference judgement of the corrupted input
	// strict = compress/flate's DEFLATE rules (a still-valid input must read to EOF);
	// permissive = upper bound of what may be accepted (C03): io.EOF is allowed only then.
	var verdict, pverdict refinflate.CVerdict
	var refPayload []byte
	emptyOK := false
	if c.Pkg == "gzip" {
		g := refinflate.ParseGzip(z, !c.Single)
		verdict = g.Verdict
		emptyOK = g.EmptyInput
		pg := refinflate.ParseGzipOpt(z, !c.Single, true)
		pverdict, refPayload = pg.Verdict, pg.Payload
	} else {
		verdict = refinflate.ParseZlib(z, zdict).Verdict
		pz := refinflate.ParseZlibOpt(z, zdict, true)
		pverdict, refPayload = pz.Verdict, pz.Payload
	}
	var src io.Reader = bytes.NewReader(z)
	if c.BufSrc > 0 {
		src = newBufio(src, c.BufSrc)
	}
	var r io.Reader
	var openErr error
	if c.Pkg == "gzip" {
		gz, e := fgzip.NewReader(src)
		if e == nil && c.Single {
			gz.Multistream(false)
		}
		r, openErr = gz, e
	} else {
		zr, e := fzlib.NewReaderDict(src, zdict)
		r, openErr = zr, e
	}
	var out []byte
	var rerr error
	if openErr != nil {
		rerr = openErr
	} else {
		out, rerr = canaryReadAll(r, c.Reads)
	}
	desc := fmt.Sprintf("%s container of %d bytes (%d member(s)), corrupted by %v", c.Pkg, len(good), len(c.Members), c.Mut)
	if openErr == nil && rerr != nil && rerr != errLivelock {
		// the outcome must stick: a later Read may not turn an error into a clean end (or vice versa)
		buf := make([]byte, 8)
		for i := 0; i < 3; i++ {
			if n, e := r.Read(buf); n != 0 || e != rerr {
				return nil, false, fmt.Errorf("%s: Reader ended with %q, but Read #%d after that returned (%d, %v)", desc, rerr, i+1, n, e)
			}
		}
	}
	if rerr == errLivelock {
		return nil, false, fmt.Errorf("%s: %v", desc, rerr)
	}
	if rerr != io.EOF && !allowedContainerErr(rerr) {
		return nil, false, fmt.Errorf("%s: Reader ended with %q, which is neither io.EOF nor a checksum/header/corrupt-input/unexpected-EOF error", desc, rerr)
	}
	if rerr == io.EOF {
		if openErr == io.EOF && emptyOK {
			// empty gzip input: a shorter valid file
		} else if pverdict != refinflate.CValid {
			return nil, false, fmt.Errorf("%s: Reader reports io.EOF after %d bytes, but by the trailer actually present the data is not valid (%v)", desc, len(out), pverdict)
		} else if !bytes.Equal(out, refPayload) {
			return nil, false, fmt.Errorf("%s: Reader reports io.EOF with %d bytes that differ from the payload the container encodes (%d bytes) at %d", desc, len(out), len(refPayload), firstDiff(out, refPayload))
		}
	} else if verdict == refinflate.CValid && !emptyOK {
		return nil, false, fmt.Errorf("%s: the input is still a valid container (%d payload bytes) but the Reader ends with %v", desc, len(refPayload), rerr)
	}
	if isTrunc && c.Single {
		first := c.Members[0].Data.Bytes()
		if !bytes.HasPrefix(first, out) {
			return nil, false, fmt.Errorf("%s (single-member mode): bytes handed out (%d) are not a prefix of the first member's payload", desc, len(out))
		}
		if len(z) >= bounds[0] {
			if rerr != io.EOF || len(out) != len(first) {
				return nil, false, fmt.Errorf("%s (single-member mode): first member is complete, got %d bytes then %v", desc, len(out), rerr)
			}
		} else if len(z) > 0 && rerr != io.ErrUnexpectedEOF {
			return nil, false, fmt.Errorf("%s (single-member mode): cut inside the member must end in io.ErrUnexpectedEOF, got %v", desc, rerr)
		}
	} else if isTrunc {
		if !bytes.HasPrefix(payload, out) {
			return nil, false, fmt.Errorf("%s: bytes handed out (%d) are not a prefix of the true payload (first difference at %d)", desc, len(out), firstDiff(out, payload))
		}
		atBoundary := len(z) == 0
		for _, b := range bounds {
			if len(z) == b {
				atBoundary = true
			}
		}
		if c.Pkg == "gzip" && atBoundary {
			if rerr != io.EOF {
				return nil, false, fmt.Errorf("%s: cut exactly between members must read as a shorter valid file, got %v", desc, rerr)
			}
		} else if rerr != io.ErrUnexpectedEOF {
			return nil, false, fmt.Errorf("%s: a container cut short inside a member must end in io.ErrUnexpectedEOF, got %v (after %d bytes)", desc, rerr, len(out))
		}
	}
	labels = append(labels, "pkg:"+c.Pkg, "ref:"+verdict.String(), "got:"+firstWord(errStr(rerr)))
	if isTrunc {
		labels = append(labels, "truncation")
	}
	if len(c.Members) > 1 {
		labels = append(labels, "multi-member")
	}
	if c.Single {
		labels = append(labels, "single-member-mode")
	}
	for _, m := range c.Members {
		if m.HCRC {
			labels = append(labels, "has-header-crc")
			break
		}
	}
	return labels, verdict != refinflate.CValid, nil
}

func TestC07(t *testing.T) {
	rapid.Check(t, func(t *rapid.T) {
		c := drawC07(t)
		if c.Pkg == "zlib" && c.Members[0].Dict != nil && knownActive("std-dict-stored-first-block") &&
			stdZlibDictBroken(c.Members[0].Level, recipeBytes(c.Members[0].Dict), c.Members[0].Data.Bytes(), c.Members[0].Ops) {
			stats.Exclude("C07", "std-dict-stored-first-block")
			c.Members[0].Dict = nil
		}
		done := begin("C07", c)
		defer done()
		labels, nt, err := checkC07(c)
		if err != nil {
			saveLast("C07", c, err)
			t.Fatalf("C07 violated: %v", err)
		}
		stats.Record("C07", stats.Digest(c), nt, labels, func() any { return c })
	})
}

// TestC07Ex: every truncation point of small containers.
func TestC07Ex(t *testing.T) {
	count := 0
	n := 10
	if thorough() {
		n = 40
	}
	for i := 0; i < n; i++ {
		pkg := []string{"gzip", "zlib"}[i%2]
		var ms []Member
		k := 1
		if pkg == "gzip" {
			k = 1 + i%3
		}
		for j := 0; j < k; j++ {
			m := Member{Enc: []string{"fast", "std"}[(i+j)%2], Level: []int{1, 2, -2, -1, 6, 0}[(i+j)%6], Data: genText(20+13*i+j, uint64(i*7+j))}
			if pkg == "gzip" && (i+j)%3 == 0 {
				m.Hdr = &GzHdr{Name: "n", Comment: "c", HasX: true, Extra: []byte{1, 2, 3}, MTime: 77, OS: 3}
			}
			ms = append(ms, m)
		}
		good, _, _, err := buildMembers(pkg, ms)
		if err != nil {
			t.Fatal(err)
		}
		for cut := 0; cut < len(good); cut++ {
			for mode := 0; mode < 2; mode++ {
				c := C07Case{Pkg: pkg, Members: ms, Mut: []Mutation{{Kind: "trunc", Pos: cut}}, Reads: []int{4096}}
				if mode == 1 {
					c.Reads = []int{1}
					c.BufSrc = 16
				}
				done := begin("C07", c)
				labels, nt, err := checkC07(c)
				done()
				if err != nil {
					saveLast("C07", c, err)
					t.Fatalf("C07 violated (truncation enumeration): %v", err)
				}
				stats.Record("C07", stats.Digest(c), nt, append(labels, "truncation-enumeration"), func() any { return c })
				count++
			}
		}
	}
	stats.Exhaustive("C07", fmt.Sprintf("every truncation point of %d fixed small containers x {4096-byte reads, 1-byte reads from a 16-byte bufio}", n), count)
}

func init() {
	replayers["C07"] = func(raw json.RawMessage) error {
		var c C07Case
		if err := json.Unmarshal(raw, &c); err != nil {
			return err
		}
		_, _, err := checkC07(c)
		return err
	}
}
