package props

import (
	"bytes"
	"encoding/json"
	"errors"
	"fmt"
	"io"
	"testing"

	fflate "github.com/intel/fastgo/compress/flate"

	"pgregory.net/rapid"

	"verifharness/iox"
	"verifharness/refinflate"
	"verifharness/stats"
	"verifharness/synth"
)

// C03: malformed input is rejected: no panic, no hang, no invented data, stdlib errors.

// Earlier is one earlier use of a Reader before Reset.
type Earlier struct {
	Stream StreamSpec `json:"stream"`
	Plan   string     `json:"plan"` // none | partial | full
	K      int        `json:"k,omitempty"`
}

type C03Case struct {
	Input   StreamSpec `json:"input"`
	Prefix  bool       `json:"prefix"`   // Input is, by construction, a proper prefix of a valid stream
	Before  []Earlier  `json:"before"`   // reuse through Reset after these
	Reads   []int      `json:"reads"`    // destination sizes
	Chunks  []int      `json:"chunks"`   // source chunking (nil = all at once from a bytes.Reader)
	EOFWith bool       `json:"eof_with"` // source returns io.EOF together with the last bytes
}

func drawMalformed(t *rapid.T) (s StreamSpec, prefix bool) {
	switch rapid.IntRange(0, 9).Draw(t, "mkind") {
	case 0:
		n := rapid.IntRange(0, 64).Draw(t, "rawlen")
		raw := make([]byte, n)
		for i := range raw {
			raw[i] = rapid.Byte().Draw(t, "rawbyte")
		}
		return StreamSpec{Kind: "raw", Raw: raw}, false
	case 1, 2:
		s = drawValidStream(t, 32<<10)
		s.Mut = drawMutations(t)
		return s, false
	case 3:
		// a valid stream cut at a drawn byte
		s = drawValidStream(t, 32<<10)
		s.Mut = []Mutation{{Kind: "trunc", Pos: rapid.IntRange(0, 1<<20).Draw(t, "cut")}}
		return s, true
	case 4:
		// a faulty stream that is also cut short or damaged near the fault / in its first header
		s = drawFaultyStream(t)
		if rapid.Bool().Draw(t, "cutfaulty") {
			s.Synth.Tail = 0
			s.Mut = []Mutation{{Kind: "trunc", Pos: -1 - rapid.IntRange(0, 12).Draw(t, "cutback")}}
		} else {
			s.Mut = []Mutation{{Kind: "flip", Pos: rapid.IntRange(0, 400).Draw(t, "hdrbit")}}
		}
		return s, false
	case 6:
		// header-level fault (or none) in a dynamic block, input cut inside that header
		hdrFaults := []string{synth.FMissingEOB, synth.FMissingEOB, synth.FOverLit, synth.FOverDist, synth.FOverCL, synth.FRepeatFirst, synth.FRunPast, synth.FHLIT, synth.FHDIST, synth.FIncompleteLit, ""}
		sy := drawSynth(t)
		sy.Blocks = sy.Blocks[:1]
		sy.Blocks[0].Type = 2
		if k := rapid.SampledFrom(hdrFaults).Draw(t, "hdrfault"); k != "" {
			sy.Fault = &synth.Fault{Kind: k, Block: 0, At: 0, Arg: rapid.IntRange(0, 127).Draw(t, "farg")}
			if k == synth.FRunPast {
				sy.Fault.Arg = rapid.IntRange(0, 767).Draw(t, "runpast")
				sy.Fault.At = rapid.IntRange(1, 300).Draw(t, "runpastcut")
			}
		}
		s = StreamSpec{Kind: "synth", Synth: sy}
		s.Mut = []Mutation{{Kind: "trunchdr", Pos: rapid.IntRange(0, 1000).Draw(t, "hdrcut")}}
		return s, false
	case 5:
		// a valid stream damaged in its first 50 bytes (block header region) and optionally cut right there
		s = drawValidStream(t, 8<<10)
		k := rapid.IntRange(1, 3).Draw(t, "nhdrmut")
		for i := 0; i < k; i++ {
			s.Mut = append(s.Mut, Mutation{Kind: "flip", Pos: rapid.IntRange(0, 400).Draw(t, "hdrbit")})
		}
		if rapid.Bool().Draw(t, "cuthdr") {
			s.Mut = append(s.Mut, Mutation{Kind: "trunc", Pos: rapid.IntRange(1, 80).Draw(t, "cuthdrpos")})
		}
		return s, false
	default:
		return drawFaultyStream(t), false
	}
}

func drawChunks(t *rapid.T) (chunks []int, eofWith bool) {
	switch rapid.IntRange(0, 4).Draw(t, "chmode") {
	case 0, 1:
		return nil, false
	case 2:
		return []int{1}, rapid.Bool().Draw(t, "eofwith")
	default:
		n := rapid.IntRange(1, 6).Draw(t, "nch")
		for i := 0; i < n; i++ {
			chunks = append(chunks, rapid.SampledFrom([]int{0, 1, 2, 3, 7, 8, 15, 16, 17, 100, 327, 328, 329, 1000, 4095, 4096, 4097}).Draw(t, "ch"))
		}
		return chunks, rapid.Bool().Draw(t, "eofwith")
	}
}

func drawEarlier(t *rapid.T) []Earlier {
	n := rapid.SampledFrom([]int{0, 0, 0, 1, 1, 2, 3}).Draw(t, "nbefore")
	var out []Earlier
	for i := 0; i < n; i++ {
		var e Earlier
		if rapid.IntRange(0, 3).Draw(t, "ekind") == 0 {
			e.Stream, _ = drawMalformed(t)
		} else {
			e.Stream = drawValidStream(t, 64<<10)
		}
		e.Plan = rapid.SampledFrom([]string{"none", "partial", "partial", "full"}).Draw(t, "plan")
		e.K = rapid.SampledFrom([]int{1, 2, 10, 100, 1000, 5000, 40000}).Draw(t, "k")
		out = append(out, e)
	}
	return out
}

func drawC03(t *rapid.T) C03Case {
	var c C03Case
	c.Input, c.Prefix = drawMalformed(t)
	c.Before = drawEarlier(t)
	c.Reads = drawReadSizes(t)
	c.Chunks, c.EOFWith = drawChunks(t)
	return c
}

func makeSource(z []byte, chunks []int, eofWith bool) io.Reader {
	if chunks == nil {
		return bytes.NewReader(z)
	}
	rest := 0
	if len(chunks) == 1 {
		rest = chunks[0]
	}
	return &iox.Chunked{Data: z, Sizes: chunks, Rest: rest, EOFWith: eofWith, FailAt: -1}
}

// runEarlier uses r on earlier inputs according to their plans. Errors are
// irrelevant here (C13 compares them); only panics are reported.
func runEarlier(r io.Reader, before []Earlier, first bool) (rr io.Reader, err error) {
	for i, e := range before {
		z, _, _, berr := e.Stream.Build()
		if berr != nil {
			return nil, berr
		}
		if i == 0 && first {
			r = fflate.NewReader(bytes.NewReader(z))
		} else {
			if e := r.(fflate.Resetter).Reset(bytes.NewReader(z), nil); e != nil {
				return nil, fmt.Errorf("Reset returned %v", e)
			}
		}
		switch e.Plan {
		case "partial":
			buf := make([]byte, e.K)
			io.ReadFull(r, buf)
		case "full":
			io.Copy(io.Discard, r)
		}
	}
	return r, nil
}

type outcome struct {
	Out []byte
	Err error
}

func isCorrupt(err error) bool {
	var ce fflate.CorruptInputError
	return errors.As(err, &ce)
}

func errKind(err error) string {
	switch {
	case err == io.EOF:
		return "EOF"
	case err == io.ErrUnexpectedEOF:
		return "UnexpectedEOF"
	case isCorrupt(err):
		return "Corrupt"
	case err == nil:
		return "nil"
	}
	return "other:" + err.Error()
}

// judgeMalformed applies C03's oracle to what a Reader produced for input z.
func judgeMalformed(z []byte, got outcome, prefix bool) (strict, perm *refinflate.Result, err error) {
	strict = refinflate.Inflate(z, refinflate.Options{})
	if e := selfCheck(z, nil, strict); e != nil {
		return nil, nil, e
	}
	perm = refinflate.Inflate(z, refinflate.Options{Permissive: true})
	if !bytes.HasPrefix(perm.Out, strict.Out) {
		return nil, nil, &oracleError{"permissive output does not extend strict output"}
	}
	if prefix && strict.Verdict != refinflate.Truncated {
		return nil, nil, &oracleError{fmt.Sprintf("input constructed as a proper prefix of a valid stream is judged %v", strict.Verdict)}
	}
	out, rerr := got.Out, got.Err
	if rerr == errLivelock || rerr == errTooMuch {
		return strict, perm, fmt.Errorf("%v (after %d bytes; a correct decoder produces %d)", rerr, len(out), len(perm.Out))
	}
	if !bytes.HasPrefix(perm.Out, out) {
		return strict, perm, fmt.Errorf("bytes handed out are not what a reference inflater produces: %d bytes returned, first difference at byte %d (reference produces %d bytes before %v: %s)", len(out), firstDiff(out, perm.Out), len(perm.Out), strict.Verdict, strict.Reason)
	}
	switch {
	case rerr == io.EOF:
		if perm.Verdict != refinflate.Valid {
			return strict, perm, fmt.Errorf("Reader reports io.EOF but the input does not begin with a complete well-formed stream (reference: %v, %s at bit %d)", strict.Verdict, strict.Reason, strict.DefectBit)
		}
		if len(out) != len(perm.Out) {
			return strict, perm, fmt.Errorf("Reader reports io.EOF after %d of %d bytes", len(out), len(perm.Out))
		}
	case rerr == io.ErrUnexpectedEOF || isCorrupt(rerr):
		if strict.Verdict == refinflate.Valid {
			return strict, perm, fmt.Errorf("input begins with a complete valid stream (%d bytes out) but the Reader ends with %v after %d bytes", len(strict.Out), rerr, len(out))
		}
		if prefix && rerr != io.ErrUnexpectedEOF {
			return strict, perm, fmt.Errorf("a valid stream cut short (at byte %d) must end in io.ErrUnexpectedEOF, got %v", len(z), rerr)
		}
		if strict.Verdict == refinflate.Corrupt && perm.Verdict == refinflate.Corrupt && rerr == io.ErrUnexpectedEOF {
			after := int64(len(z))*8 - perm.DefectBit
			if after >= 400*8 {
				return strict, perm, fmt.Errorf("defect (%s) at bit %d with %d bytes of input after it, but the Reader reports io.ErrUnexpectedEOF instead of CorruptInputError", perm.Reason, perm.DefectBit, after/8)
			}
		}
	default:
		return strict, perm, fmt.Errorf("Reader ended with %v (%T): neither io.EOF, io.ErrUnexpectedEOF nor flate.CorruptInputError", rerr, rerr)
	}
	return strict, perm, nil
}

func checkC03(c C03Case) (labels []string, nontrivial bool, err error) {
	defer guardPanic(&err)
	z, _, _, err := c.Input.Build()
	if err != nil {
		return nil, false, err
	}
	var r io.Reader
	if len(c.Before) > 0 {
		r, err = runEarlier(nil, c.Before, true)
		if err != nil {
			return nil, false, err
		}
		if e := r.(fflate.Resetter).Reset(makeSource(z, c.Chunks, c.EOFWith), nil); e != nil {
			return nil, false, fmt.Errorf("Reset returned %v", e)
		}
	} else {
		r = fflate.NewReader(makeSource(z, c.Chunks, c.EOFWith))
	}
	out, rerr := readAllChunks(r, c.Reads, 0)
	strict, perm, err := judgeMalformed(z, outcome{out, rerr}, c.Prefix)
	if err != nil {
		return nil, false, err
	}
	if e := readerContractTail(r, rerr); e != nil {
		return nil, false, e
	}
	labels = append(labels, "verdict:"+strict.Verdict.String(), "got:"+errKind(rerr))
	if c.Input.Kind == "synth" && c.Input.Synth.Fault != nil {
		labels = append(labels, "fault:"+c.Input.Synth.Fault.Kind)
		if c.Input.Synth.Fault.Block > 0 {
			labels = append(labels, "fault-after-other-blocks")
		}
	}
	if len(c.Before) > 0 {
		labels = append(labels, "reused-reader")
	}
	if strict.Verdict != perm.Verdict {
		labels = append(labels, "strict!=permissive")
	}
	if c.Prefix {
		labels = append(labels, "constructed-prefix")
	}
	nt := strict.Verdict != refinflate.Valid && len(strict.Blocks) >= 1 && strict.Blocks[0].HeaderEndBit > 0 && strict.DefectBit > strict.Blocks[0].HeaderEndBit
	return labels, nt, nil
}

func TestC03(t *testing.T) {
	rapid.Check(t, func(t *rapid.T) {
		c := drawC03(t)
		if len(c.Before) > 0 && knownActive("reader-reset-stale-output") {
			stats.Exclude("C03", "reader-reset-stale-output")
			c.Before = nil
		}
		done := begin("C03", c)
		defer done()
		labels, nt, err := checkC03(c)
		if err != nil {
			saveLast("C03", c, err)
			t.Fatalf("C03 violated: %v", err)
		}
		stats.Record("C03", stats.Digest(c), nt, labels, func() any { return c })
	})
}

// TestC03Ex: every truncation point of small valid streams (exhaustive), all at once and one byte at a time.
func TestC03Ex(t *testing.T) {
	limit := 1024
	nstreams := 40
	if thorough() {
		limit = 8192
		nstreams = 120
	}
	count := 0
	for i := 0; i < nstreams; i++ {
		s := smallStream(i)
		z, _, _, err := s.Build()
		if err != nil {
			t.Fatalf("harness: %v", err)
		}
		if len(z) > limit {
			continue
		}
		for cut := 0; cut < len(z); cut++ {
			for mode := 0; mode < 2; mode++ {
				c := C03Case{Input: s, Prefix: true, Reads: []int{4096}}
				c.Input.Mut = []Mutation{{Kind: "trunc", Pos: cut}}
				if mode == 1 {
					c.Chunks = []int{1}
					c.Reads = []int{1}
				}
				done := begin("C03", c)
				labels, nt, err := checkC03(c)
				done()
				if err != nil {
					saveLast("C03", c, err)
					t.Fatalf("C03 violated (truncation enumeration): %v", err)
				}
				stats.Record("C03", stats.Digest(c), nt, append(labels, "truncation-enumeration"), func() any { return c })
				count++
			}
		}
	}
	// second family: dynamic blocks with a header-level fault, cut at every byte
	hdrFaults := []string{synth.FMissingEOB, synth.FOverLit, synth.FOverDist, synth.FIncompleteLit, synth.FRunPast, synth.FRepeatFirst}
	nf := 60
	if thorough() {
		nf = 240
	}
	for i := 0; i < nf; i++ {
		b := synth.BlockSpec{Type: 2, N: 3 + i%40, Seed: uint64(1000 + i), Alpha: []int{2, 16, 64, 200}[i%4], MatchPct: []int{0, 30}[i%2],
			Chain: (i * 17) % 101, ExtraLit: []int{0, 3, 40}[i%3], ExtraDist: i % 4, DistCode: i % 3, RLE: 1 + i%2, PadLit: i % 6, FullHCLEN: i%2 == 0, ExtraCL: i % 5}
		sy := &synth.Stream{Blocks: []synth.BlockSpec{b}, Fault: &synth.Fault{Kind: hdrFaults[i%len(hdrFaults)], Block: 0, At: 0, Arg: i}}
		s := StreamSpec{Kind: "synth", Synth: sy}
		z, _, _, err := s.Build()
		if err != nil {
			t.Fatalf("harness: %v", err)
		}
		if len(z) > 400 {
			continue
		}
		for cut := 0; cut <= len(z); cut++ {
			c := C03Case{Input: s, Reads: []int{1 + (cut%2)*4095}}
			if cut < len(z) {
				c.Input.Mut = []Mutation{{Kind: "trunc", Pos: cut}}
			}
			done := begin("C03", c)
			labels, nt, err := checkC03(c)
			done()
			if err != nil {
				saveLast("C03", c, err)
				t.Fatalf("C03 violated (faulty-header truncation enumeration): %v", err)
			}
			stats.Record("C03", stats.Digest(c), nt, append(labels, "faulty-header-truncation-enumeration"), func() any { return c })
			count++
		}
	}
	// every multiset of long distance code lengths: n11..n15 codes of length 11..15, at most 30 in all
	// (none is over-subscribed, nearly all are incomplete; the decoder's long-code table is sized for
	// complete codes). The block itself uses no match, so a lenient decoder may accept the stream.
	{
		stride, idx := 31, 0
		if thorough() {
			stride = 1
		}
		var n [5]int
		var rec func(k, left int)
		rec = func(k, left int) {
			if k == 5 {
				idx++
				total := n[0] + n[1] + n[2] + n[3] + n[4]
				if total == 0 || (idx%stride != 0 && total < 30) {
					return
				}
				var lens []int
				for li, c := range n {
					for j := 0; j < c; j++ {
						lens = append(lens, 11+li)
					}
				}
				sy := &synth.Stream{Blocks: []synth.BlockSpec{{Type: 2, N: 3, Seed: 1, Alpha: 2}}, Fault: &synth.Fault{Kind: synth.FRawDistLens, Block: 0, Lens: lens}, Tail: 0}
				c := C03Case{Input: StreamSpec{Kind: "synth", Synth: sy}, Reads: []int{4096}}
				done := begin("C03", c)
				labels, nt, err := checkC03(c)
				done()
				if err != nil {
					saveLast("C03", c, err)
					t.Fatalf("C03 violated (distance code lengths %v): %v", lens, err)
				}
				if idx%64 == 0 {
					stats.Record("C03", stats.Digest(c), nt, append(labels, "long-distance-code-multiset-enumeration"), func() any { return c })
				} else {
					stats.Record("C03", stats.Digest(c), nt, nil, func() any { return c })
				}
				count++
				return
			}
			for c := 0; c <= left; c++ {
				n[k] = c
				rec(k+1, left-c)
			}
			n[k] = 0
		}
		before := count
		rec(0, 30)
		stats.Exhaustive("C03", fmt.Sprintf("distance code length multisets over lengths 11..15 with at most 30 codes: all with exactly 30 codes and every %d-th of the rest (all 324631 in the thorough tier)", stride), count-before)
	}
	// a back-reference reaching exactly one or two bytes before the start of the output, at produced counts
	// around 32768 (the largest distance) and a few others, inside one long dynamic block
	for _, base := range []int{1, 2, 255, 4096, 32768, 65536} {
		for dp := -3; dp <= 2; dp++ {
			prod := base + dp
			if prod < 1 {
				continue
			}
			for arg := 0; arg <= 1; arg++ {
				plan := []synth.Run{{N: prod, Lit: 'x'}, {N: 1, Len: 10, Dist: 1}, {N: 300, Lit: 'y'}}
				sy := &synth.Stream{Blocks: []synth.BlockSpec{{Type: 2, Plan: plan, Seed: uint64(prod), ExtraDist: 30, DistCode: 2, FreqSort: true}},
					Fault: &synth.Fault{Kind: synth.FDistTooFar, Block: 0, At: prod, Arg: arg}, Tail: 600}
				c := C03Case{Input: StreamSpec{Kind: "synth", Synth: sy}, Reads: []int{4096}}
				done := begin("C03", c)
				labels, nt, err := checkC03(c)
				done()
				if err != nil {
					saveLast("C03", c, err)
					t.Fatalf("C03 violated (distance just past the data produced, %d bytes produced): %v", prod, err)
				}
				stats.Record("C03", stats.Digest(c), nt, append(labels, "distance-just-past-start-enumeration"), func() any { return c })
				count++
			}
		}
	}
	stats.Exhaustive("C03", fmt.Sprintf("every truncation point of %d fixed small valid streams (<= %d bytes) x {all at once, 1-byte source and 1-byte reads}", nstreams, limit), count)
}

func init() {
	replayers["C03"] = func(raw json.RawMessage) error {
		var c C03Case
		if err := json.Unmarshal(raw, &c); err != nil {
			return err
		}
		_, _, err := checkC03(c)
		return err
	}
}

// TestC03Sweep: for a few tiny streams with dynamic headers, every single-bit flip in the
// first 40 bytes combined with every truncation point (two-fault sweep, enumerated).
func TestC03Sweep(t *testing.T) {
	count := 0
	n := 6
	if thorough() {
		n = 24
	}
	shard, nshards := envInt("VERIF_SHARD", 0), envInt("VERIF_NSHARDS", 1)
	for i := 0; i < n; i++ {
		if i%nshards != shard {
			continue
		}
		b := synth.BlockSpec{Type: 2, N: 4 + i%9, Seed: uint64(500 + i), Alpha: []int{3, 16, 200}[i%3], MatchPct: []int{0, 40}[i%2],
			Chain: (i * 29) % 101, ExtraLit: []int{0, 4, 30}[i%3], ExtraDist: i % 3, DistCode: i % 3, RLE: 1 + i%2, PadLit: i % 4, ExtraCL: i % 4}
		s := StreamSpec{Kind: "synth", Synth: &synth.Stream{Blocks: []synth.BlockSpec{b}}}
		z, _, _, err := s.Build()
		if err != nil {
			t.Fatal(err)
		}
		if len(z) > 90 {
			continue
		}
		nb := len(z) * 8
		if nb > 320 {
			nb = 320
		}
		for bit := -1; bit < nb; bit++ {
			for cut := 2; cut <= len(z); cut++ {
				c := C03Case{Input: s, Reads: []int{1}}
				if bit >= 0 {
					c.Input.Mut = append(c.Input.Mut, Mutation{Kind: "flip", Pos: bit})
				}
				if cut < len(z) {
					c.Input.Mut = append(c.Input.Mut, Mutation{Kind: "trunc", Pos: cut})
				}
				done := begin("C03", c)
				labels, nt, err := checkC03(c)
				done()
				if err != nil {
					saveLast("C03", c, err)
					t.Fatalf("C03 violated (bit-flip x truncation sweep): %v", err)
				}
				if bit%16 == 0 {
					stats.Record("C03", stats.Digest(c), nt, append(labels, "flip-x-truncation-sweep"), func() any { return c })
				} else {
					stats.Record("C03", stats.Digest(c), nt, nil, nil)
				}
				count++
			}
		}
	}
	stats.Exhaustive("C03", fmt.Sprintf("%d tiny dynamic-header streams: every single-bit flip in the first 40 bytes x every truncation point (this shard's share)", n), count)
}
