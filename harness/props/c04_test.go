package props

import (
	"bufio"
	"bytes"
	"encoding/json"
	"fmt"
	"io"
	"testing"

	fflate "github.com/intel/fastgo/compress/flate"

	"pgregory.net/rapid"

	"verifharness/gen"
	"verifharness/iox"
	"verifharness/refinflate"
	"verifharness/stats"
	"verifharness/synth"
)

// C04: decoded output does not depend on how the compressed bytes arrive or are read.

type C04Case struct {
	Stream  StreamSpec `json:"stream"`   // valid, or valid with a single "trunc" mutation
	Chunks  []int      `json:"chunks"`   // source schedule (nil = all at once)
	EOFWith bool       `json:"eof_with"` // io.EOF delivered together with the last bytes
	Entry   string     `json:"entry"`    // plain | bufio-new | bufio-reset
	BufSize int        `json:"buf_size"` // for the bufio entries
	Reads   []int      `json:"reads"`
}

var bufioSizes = []int{16, 17, 31, 64, 327, 328, 329, 4095, 4096, 4097, 65536, 1 << 20}

func drawC04(t *rapid.T) C04Case {
	var c C04Case
	max := 64 << 10
	if thorough() {
		max = 512 << 10
	}
	c.Stream = drawValidStream(t, max)
	if rapid.IntRange(0, 2).Draw(t, "cut") == 0 {
		c.Stream.Mut = []Mutation{{Kind: "trunc", Pos: rapid.IntRange(0, 1<<20).Draw(t, "cutpos")}}
	}
	switch rapid.IntRange(0, 5).Draw(t, "chmode") {
	case 0:
		c.Chunks = nil
	case 1:
		c.Chunks = []int{1}
	default:
		n := rapid.IntRange(1, 8).Draw(t, "nch")
		for i := 0; i < n; i++ {
			c.Chunks = append(c.Chunks, rapid.SampledFrom([]int{0, 1, 2, 3, 7, 8, 9, 15, 16, 17, 100, 327, 328, 329, 1000, 4095, 4096, 4097, 8192}).Draw(t, "ch"))
		}
	}
	if rapid.IntRange(0, 5).Draw(t, "wb") == 0 {
		// output just past the 64 KiB history buffer from low-entropy data (many packed
		// multi-symbol entries), delivered a byte or two at a time: entries straddle both
		// the output-window boundary and the end of the delivered input
		n := 65536 + rapid.IntRange(0, 8192).Draw(t, "wbn")
		data := gen.Recipe{Segs: []gen.Seg{{Kind: "rand", N: n, A: rapid.SampledFrom([]int{3, 4, 10, 16}).Draw(t, "wbalpha"), Seed: rapid.Uint64Range(0, 1<<20).Draw(t, "wbseed")}}}
		set := WSetting{Ctor: "new", Level: rapid.SampledFrom([]int{-2, 1, 2, 6}).Draw(t, "wblevel")}
		kind := "std"
		if set.Level != 6 && rapid.Bool().Draw(t, "wbfast") {
			kind = "fast"
		}
		c.Stream = StreamSpec{Kind: kind, Data: &data, Set: &set, Ops: []gen.Op{{K: "W", N: n}}}
		c.Chunks = []int{rapid.SampledFrom([]int{1, 1, 2, 3}).Draw(t, "wbchunk")}
	}
	c.EOFWith = rapid.Bool().Draw(t, "eofwith")
	c.Entry = rapid.SampledFrom([]string{"plain", "bufio-new", "bufio-reset", "bufio-reset"}).Draw(t, "entry")
	c.BufSize = rapid.SampledFrom(bufioSizes).Draw(t, "bufsize")
	c.Reads = drawReadSizes(t)
	return c
}

// openReader builds a flate Reader over src through the chosen entry point.
func openReader(entry string, bufSize int, src io.Reader) (io.Reader, error) {
	switch entry {
	case "bufio-new":
		return fflate.NewReader(bufio.NewReaderSize(src, bufSize)), nil
	case "bufio-reset":
		r := fflate.NewReader(bytes.NewReader(nil))
		if err := r.(fflate.Resetter).Reset(bufio.NewReaderSize(src, bufSize), nil); err != nil {
			return nil, fmt.Errorf("Reset returned %v", err)
		}
		return r, nil
	default:
		return fflate.NewReader(src), nil
	}
}

func checkC04(c C04Case, tailKnown bool) (labels []string, nontrivial bool, err error) {
	defer guardPanic(&err)
	for _, m := range c.Stream.Mut {
		if m.Kind != "trunc" {
			return nil, false, fmt.Errorf("harness: C04 inputs are valid streams or valid streams cut short")
		}
	}
	z, _, _, err := c.Stream.Build()
	if err != nil {
		return nil, false, err
	}
	ref := refinflate.Inflate(z, refinflate.Options{})
	if e := selfCheck(z, nil, ref); e != nil {
		return nil, false, e
	}
	if ref.Verdict == refinflate.Corrupt {
		return nil, false, &oracleError{"C04 input judged corrupt: " + ref.Reason}
	}
	// baseline: all at once
	base := fflate.NewReader(bytes.NewReader(z))
	wantOut, wantErr := io.ReadAll(base)
	if wantErr == nil {
		wantErr = io.EOF
	}
	src := makeSource(z, c.Chunks, c.EOFWith)
	r, err := openReader(c.Entry, c.BufSize, src)
	if err != nil {
		return nil, false, err
	}
	out, gotErr := readAllChunks(r, c.Reads, len(ref.Out)+1024)
	if gotErr != wantErr {
		return nil, false, fmt.Errorf("final error %v, but %v when the same %d bytes arrive at once (output %d vs %d bytes; reference: %v)", gotErr, wantErr, len(z), len(out), len(wantOut), ref.Verdict)
	}
	if tailKnown && len(c.Stream.Mut) > 0 && !bytes.Equal(out, wantOut) {
		// known finding "truncated-tail-symbols": on a stream cut short, the last one or
		// two symbols before the cut may or may not be delivered depending on buffering.
		// Residual oracle for this class: same error (checked above), both outputs are
		// prefixes of the reference output, and they differ by at most three symbols' worth.
		d := len(out) - len(wantOut)
		if d < 0 {
			d = -d
		}
		if !bytes.HasPrefix(ref.Out, out) || !bytes.HasPrefix(ref.Out, wantOut) || d > 3*258 {
			return nil, false, fmt.Errorf("truncated stream: outputs (%d and %d bytes) are not both prefixes of the reference output (%d bytes) within three symbols", len(out), len(wantOut), len(ref.Out))
		}
		stats.Exclude("C04", "truncated-tail-symbols(residual oracle applied)")
		wantOut = out
	}
	if !bytes.Equal(out, wantOut) {
		return nil, false, fmt.Errorf("output differs from the all-at-once run at byte %d (%d vs %d bytes; final error %v; reference %v with %d bytes)", firstDiff(out, wantOut), len(out), len(wantOut), gotErr, ref.Verdict, len(ref.Out))
	}
	labels = append(labels, "entry:"+c.Entry, "verdict:"+ref.Verdict.String())
	nt := false
	if ch, ok := src.(*iox.Chunked); ok && ch.Reads >= 3 {
		labels = append(labels, "source-reads>=3")
		nt = true
	}
	if len(c.Reads) == 1 && c.Reads[0] == 1 {
		labels = append(labels, "dest-size-1")
		nt = true
	}
	if c.Entry != "plain" && c.BufSize < 328 {
		labels = append(labels, "bufio<328")
		nt = true
	}
	if c.Entry != "plain" {
		labels = append(labels, fmt.Sprintf("bufio:%d", c.BufSize))
	}
	return labels, nt && len(z) > 0, nil
}

func TestC04(t *testing.T) {
	rapid.Check(t, func(t *rapid.T) {
		c := drawC04(t)
		done := begin("C04", c)
		defer done()
		labels, nt, err := checkC04(c, knownActive("truncated-tail-symbols"))
		if err != nil {
			saveLast("C04", c, err)
			t.Fatalf("C04 violated: %v", err)
		}
		stats.Record("C04", stats.Digest(c), nt, labels, func() any { return c })
	})
}

// TestC04Ex: for small streams, the two-chunk split at every byte offset and the
// one-byte-at-a-time schedule, complete and cut at every byte.
func TestC04Ex(t *testing.T) {
	nstreams := 12
	if thorough() {
		nstreams = 40
	}
	count := 0
	for i := 0; i < nstreams; i++ {
		s := smallStream(i)
		z, _, _, err := s.Build()
		if err != nil {
			t.Fatal(err)
		}
		if len(z) > 600 {
			continue
		}
		for cut := -1; cut < len(z); cut += 1 + (len(z) / 40) {
			n := len(z)
			ss := s
			if cut >= 0 {
				ss.Mut = []Mutation{{Kind: "trunc", Pos: cut}}
				n = cut
			}
			for split := 0; split <= n; split++ {
				c := C04Case{Stream: ss, Chunks: []int{split, n - split + 1}, Entry: "plain", Reads: []int{4096}}
				if split == n {
					c.Chunks = []int{1}
					c.Reads = []int{1}
				}
				done := begin("C04", c)
				labels, nt, err := checkC04(c, knownActive("truncated-tail-symbols"))
				done()
				if err != nil {
					saveLast("C04", c, err)
					t.Fatalf("C04 violated (split enumeration): %v", err)
				}
				stats.Record("C04", stats.Digest(c), nt || split > 0, append(labels, "split-enumeration"), func() any { return c })
				count++
			}
		}
	}
	stats.Exhaustive("C04", fmt.Sprintf("%d fixed small streams (<=600 bytes), complete and cut at ~40 offsets each: two-chunk split at every byte offset + 1-byte schedule", nstreams), count)
}

func init() {
	replayers["C04"] = func(raw json.RawMessage) error {
		var c C04Case
		if err := json.Unmarshal(raw, &c); err != nil {
			return err
		}
		_, _, err := checkC04(c, false)
		return err
	}
}

// TestC04Win: window-edge sweep. A first block of k short-coded literals puts the first entries
// of a second block (literals and 258-byte matches, packed into multi-symbol lookup entries) at
// every output offset around the 64 KiB history-buffer boundaries (65536-258-16 .. 65536+2), and
// the compressed bytes are delivered in two pieces cut at every byte near that entry (plus the
// all-at-once run). Oracle: C02 (== reference inflater) for the whole delivery and C04 (== the
// all-at-once run) for every cut. Shardable.
func TestC04Win(t *testing.T) {
	shard, nshards := envInt("VERIF_SHARD", 0), envInt("VERIF_NSHARDS", 1)
	count := 0
	kstep := 3
	if thorough() {
		kstep = 1
	}
	variant := 0
	// in-block family: ONE long dynamic block (so the vector decode loop is running with its
	// multi-symbol table) in which a "literal + 258-byte match" (or literal, literal, 257-byte match)
	// lookup entry starts at output offset k, followed by 400 more literals.
	for shape := 0; shape < 2; shape++ {
		for k := 65536 - 258 - 6; k <= 65536-258+3; k++ {
			variant++
			if variant%nshards != shard {
				continue
			}
			plan := []synth.Run{{N: k, Lit: 'a'}, {N: 1, Lit: 'a'}}
			if shape == 1 {
				plan = append(plan, synth.Run{N: 1, Lit: 'a'}, synth.Run{N: 1, Len: 257, Dist: 1})
			} else {
				plan = append(plan, synth.Run{N: 1, Len: 258, Dist: 1})
			}
			plan = append(plan, synth.Run{N: 400, Lit: 'b'})
			s := StreamSpec{Kind: "synth", Synth: &synth.Stream{Blocks: []synth.BlockSpec{
				{Type: 0, N: 1, Seed: 1, Alpha: 256}, {Type: 2, Plan: plan, Seed: uint64(k), FreqSort: true}, {Type: 1, N: 0}}}}
			z, _, err := validStreamOracle(s)
			if err != nil {
				t.Fatalf("harness: %v", err)
			}
			if _, _, err := checkC02(C02Case{Stream: s, Reads: []int{4096}}); err != nil {
				saveLast("C04", C04Case{Stream: s, Entry: "plain", Reads: []int{4096}}, err)
				t.Fatalf("C04 violated (window-edge sweep, in-block, whole delivery, k=%d): %v", k, err)
			}
			refOut := refinflate.Inflate(z, refinflate.Options{}).Out
			lo := len(z) - 190
			if lo < 1 {
				lo = 1
			}
			for cut := lo; cut < len(z); cut++ {
				c := C04Case{Stream: s, Chunks: []int{cut, len(z)}, Entry: "bufio-new", BufSize: 1 << 20, Reads: []int{4096}}
				var out []byte
				var rerr error
				func() {
					defer guardPanic(&rerr)
					r, e := openReader(c.Entry, c.BufSize, makeSource(z, c.Chunks, false))
					if e != nil {
						rerr = e
						return
					}
					out, rerr = readAllChunks(r, c.Reads, len(refOut)+1024)
				}()
				if rerr != io.EOF || !bytes.Equal(out, refOut) {
					err := fmt.Errorf("two-piece delivery cut at byte %d of %d: %d bytes then %v; delivered at once the same stream gives %d bytes then EOF (first difference at %d)", cut, len(z), len(out), firstLine(errStr(rerr)), len(refOut), firstDiff(out, refOut))
					saveLast("C04", c, err)
					t.Fatalf("C04 violated (window-edge sweep, in-block, k=%d): %v", k, err)
				}
				if cut == lo {
					stats.Record("C04", stats.Digest(c), true, []string{"window-edge-sweep-in-block"}, func() any { return c })
				} else {
					stats.Record("C04", stats.Digest(c), true, nil, nil)
				}
				count++
			}
		}
	}
	for _, second := range []synth.BlockSpec{
		{Type: 2, N: 7, Seed: 1, Alpha: 2, MatchPct: 50, LenMode: 2, DistMode: 3, FreqSort: true},
		{Type: 1, N: 7, Seed: 2, Alpha: 2, MatchPct: 50, LenMode: 2, DistMode: 3},
		{Type: 2, N: 7, Seed: 3, Alpha: 3, MatchPct: 40, LenMode: 3, DistMode: 1, FreqSort: true, Alt258: true},
		{Type: 0, N: 5, Seed: 4, Alpha: 256},
	} {
		for k := 65536 - 258 - 16; k <= 65536+4; k++ {
			if !((k <= 65536-258+14) || k >= 65536-14) && (k%kstep != 0 || !thorough()) {
				// quick: only the offsets right at 65536-258 and at 65536; thorough: every offset
				continue
			}
			variant++
			if variant%nshards != shard {
				continue
			}
			first := synth.BlockSpec{Type: 2, N: k, Seed: uint64(k), Alpha: 2, FreqSort: true}
			tail := synth.BlockSpec{Type: 1, N: 70, Seed: 9, Alpha: 256}
			s := StreamSpec{Kind: "synth", Synth: &synth.Stream{Blocks: []synth.BlockSpec{first, second, tail}}}
			z, _, err := validStreamOracle(s)
			if err != nil {
				t.Fatalf("harness: %v", err)
			}
			c2 := C02Case{Stream: s, Reads: []int{4096}}
			if _, _, err := checkC02(c2); err != nil {
				saveLast("C04", C04Case{Stream: s, Entry: "plain", Reads: []int{4096}}, err)
				t.Fatalf("C04 violated (window-edge sweep, whole delivery, k=%d): %v", k, err)
			}
			lo := len(z) - 110
			if lo < 1 {
				lo = 1
			}
			refOut := refinflate.Inflate(z, refinflate.Options{}).Out
			for cut := lo; cut < len(z); cut++ {
				c := C04Case{Stream: s, Chunks: []int{cut, len(z)}, Entry: "bufio-new", BufSize: 1 << 20, Reads: []int{4096}}
				// fast path: the stream, its reference output and the all-at-once result (checked above) are shared by all cuts
				var out []byte
				var rerr error
				func() {
					defer guardPanic(&rerr)
					r, e := openReader(c.Entry, c.BufSize, makeSource(z, c.Chunks, false))
					if e != nil {
						rerr = e
						return
					}
					out, rerr = readAllChunks(r, c.Reads, len(refOut)+1024)
				}()
				if rerr != io.EOF || !bytes.Equal(out, refOut) {
					err := fmt.Errorf("two-piece delivery cut at byte %d of %d: %d bytes then %v; delivered at once the same stream gives %d bytes then EOF (first difference at %d)", cut, len(z), len(out), rerr, len(refOut), firstDiff(out, refOut))
					saveLast("C04", c, err)
					t.Fatalf("C04 violated (window-edge sweep, k=%d): %v", k, err)
				}
				if cut == lo {
					stats.Record("C04", stats.Digest(c), true, []string{"window-edge-sweep"}, func() any { return c })
				} else {
					stats.Record("C04", stats.Digest(c), true, nil, nil)
				}
				count++
			}
		}
	}
	stats.Exhaustive("C04", fmt.Sprintf("window-edge sweep: 4 second-block shapes x first block of k literals, k in [65262,65292] and [65522,65540] (thorough: every k in [65262,65540], kstep %d), two-piece delivery cut at each of the last 110 compressed bytes (this shard's share)", kstep), count)
}
