package props

import (
	"bytes"
	stdgzip "compress/gzip"
	"encoding/json"
	"fmt"
	"io"
	"testing"
	"verifharness/gen"

	fgzip "github.com/intel/fastgo/compress/gzip"

	"pgregory.net/rapid"

	"verifharness/stats"
)

// C08: concatenated gzip members read as one stream, or member by member.

type C08Case struct {
	Members []Member `json:"members"`
	Trail   []byte   `json:"trail"` // non-gzip data after the last member (member-by-member mode only)
	Mode    string   `json:"mode"`  // A (multistream) | B (member by member)
	BufSrc  int      `json:"buf_src"`
	Reads   []int    `json:"reads"`
	Reuse   bool     `json:"reuse,omitempty"`
	CutMember int    `json:"cut_member,omitempty"` // 1-based: the source delivers its bytes with a chunk boundary at (end of that member's DEFLATE data)+CutRel
	CutRel    int    `json:"cut_rel,omitempty"`
	Detour  bool     `json:"detour,omitempty"` // mode B: between two members the Reader is Reset onto an unrelated plain source and drained, then back onto the shared buffered source // all members written by ONE gzip Writer, Reset between members
}

func drawC08(t *rapid.T) C08Case {
	var c C08Case
	n := rapid.SampledFrom([]int{1, 2, 2, 3, 4, 6}).Draw(t, "nmembers")
	for i := 0; i < n; i++ {
		m := drawMember(t, "gzip", 20<<10)
		if m.Hdr != nil && len(m.Hdr.Extra) > 300 {
			m.Hdr.Extra = m.Hdr.Extra[:300]
		}
		m.HCRC = rapid.IntRange(0, 3).Draw(t, "hcrc") == 0
		c.Members = append(c.Members, m)
	}
	if rapid.IntRange(0, 3).Draw(t, "windowsized") == 0 {
		// one member whose payload ends right at / just past a full 64 KiB output window (or a slide):
		// the trailer and the next member's header are then read straight after the window-full continuation
		i := rapid.IntRange(0, n-1).Draw(t, "bigmember")
		size := rapid.SampledFrom([]int{65536, 65536 + 288, 98304, 131072}).Draw(t, "bigsize") + rapid.SampledFrom([]int{-300, -6, -1, 0, 1, 6, 300}).Draw(t, "bigjitter")
		kind := rapid.SampledFrom([]string{"text", "rand", "run", "period"}).Draw(t, "bigkind")
		c.Members[i].Data = gen.Recipe{Segs: []gen.Seg{{Kind: kind, N: size, A: 7, Seed: uint64(size)}}}
		c.Members[i].Ops = nil
		if rapid.Bool().Draw(t, "rawfinalstored") {
			// the member's body ends in a FINAL STORED block that carries data, placed so that the 64 KiB
			// output window fills k bytes before the member's end: those k bytes are then taken out of
			// the bit buffer / the look-ahead, and the trailer must be found right behind them
			k := rapid.SampledFrom([]int{0, 1, 1, 2, 2, 3, 3, 4, 5, 7, 8, 9, 40}).Draw(t, "rawk")
			c.Members[i].Data = gen.Recipe{Segs: []gen.Seg{{Kind: kind, N: rapid.SampledFrom([]int{65536, 65536, 131072, 196608}).Draw(t, "rawwin") + k, A: 7, Seed: uint64(size)}}}
			c.Members[i].Enc = "raw"
			c.Members[i].Level = rapid.SampledFrom([]int{k, k, k + 1, k + 5, 300, 65535}).Draw(t, "rawtail")
			if c.Members[i].Level == 0 {
				c.Members[i].Level = 1
			}
			if rapid.Bool().Draw(t, "rawprefixcompressed") {
				c.Members[i].Ops = make([]gen.Op, rapid.IntRange(1, 9).Draw(t, "rawlevel"))
			}
			c.CutMember = i + 1
			c.CutRel = rapid.IntRange(-9, 9).Draw(t, "cutrel")
		}
	}
	c.Mode = rapid.SampledFrom([]string{"A", "B", "B"}).Draw(t, "mode")
	if c.Mode == "B" && rapid.Bool().Draw(t, "hastrail") {
		n := rapid.SampledFrom([]int{1, 2, 9, 10, 11, 100, 5000}).Draw(t, "traillen")
		k := rapid.IntRange(0, 2).Draw(t, "trailkind")
		c.Trail = make([]byte, n)
		for i := range c.Trail {
			switch k {
			case 0:
				c.Trail[i] = 0
			case 1:
				c.Trail[i] = byte(i*37 + 11)
			default:
				c.Trail[i] = []byte{0x1f, 0x8b, 0x09}[i%3] // looks almost like a header
			}
		}
	}
	c.BufSrc = rapid.SampledFrom([]int{16, 17, 64, 512, 4096, 4097, 65536}).Draw(t, "bufsrc")
	c.Detour = c.Mode == "B" && rapid.IntRange(0, 2).Draw(t, "detour") == 0
	if c.CutMember != 0 && rapid.Bool().Draw(t, "bigbufio") {
		c.BufSrc = 1 << 20 // everything up to the cut arrives in one piece
	}
	if c.CutMember == 0 && rapid.IntRange(0, 2).Draw(t, "reusewriter") == 0 {
		c.Reuse = true
		for i := range c.Members {
			c.Members[i].Enc, c.Members[i].Level = c.Members[0].Enc, c.Members[0].Level
		}
	}
	c.Reads = drawReadSizes(t)
	return c
}

func checkC08(c C08Case) (labels []string, nontrivial bool, err error) {
	defer guardPanic(&err)
	var z, payload []byte
	var bounds []int
	if c.Reuse {
		z, bounds, payload, err = buildMembersReused(c.Members)
	} else {
		z, bounds, payload, err = buildMembers("gzip", c.Members)
	}
	if err != nil {
		return nil, false, err
	}
	all := append(append([]byte(nil), z...), c.Trail...)
	if c.Mode == "A" {
		src := newBufio(cutSource(bytes.NewReader(z), c.cutPos(bounds)), c.BufSrc)
		r, e := fgzip.NewReader(src)
		if e != nil {
			return nil, false, fmt.Errorf("NewReader on %d concatenated members: %v", len(c.Members), e)
		}
		h0 := c.Members[0].Hdr
		if e := hdrMatches(h0, r.Name, r.Comment, r.Extra, r.ModTime, r.OS); e != nil {
			return nil, false, fmt.Errorf("multistream mode: %v", e)
		}
		out, rerr := readAllChunks(r, c.Reads, 0)
		// in multistream mode the Header stays that of the first member while later headers are parsed
		if e := hdrMatches(h0, r.Name, r.Comment, r.Extra, r.ModTime, r.OS); e != nil {
			return nil, false, fmt.Errorf("multistream mode, after reading all %d members: Header is no longer the first member's: %v", len(c.Members), e)
		}
		if rerr != io.EOF || !bytes.Equal(out, payload) {
			return nil, false, fmt.Errorf("multistream mode over %d members: %d bytes then %v; want the concatenated payloads (%d bytes) then EOF; first difference at %d", len(c.Members), len(out), rerr, len(payload), firstDiff(out, payload))
		}
		// twin: the standard library on the same input
		sr, e := stdgzip.NewReader(bytes.NewReader(z))
		if e != nil {
			return nil, false, &oracleError{"std gzip rejects generated members: " + e.Error()}
		}
		sout, serr := io.ReadAll(sr)
		if serr != nil || !bytes.Equal(sout, payload) {
			return nil, false, &oracleError{fmt.Sprintf("std gzip on generated members: %v, %d bytes", serr, len(sout))}
		}
	} else {
		under := bytes.NewReader(all)
		src := newBufio(cutSource(under, c.cutPos(bounds)), c.BufSrc)
		var r *fgzip.Reader
		prev := 0
		for i, m := range c.Members {
			var e error
			if i == 0 {
				r, e = fgzip.NewReader(src)
			} else {
				if c.Detour {
					// an unrelated member from a plain (non-bufio) source in between: the caller's
					// buffered source must not be touched by that
					other, _ := Member{Enc: "std", Level: 6, Data: genText(40, 3)}.build("gzip")
					if e := r.Reset(bytes.NewReader(other)); e != nil {
						return nil, false, fmt.Errorf("detour Reset onto a plain source: %v", e)
					}
					if out, e := io.ReadAll(r); e != nil || len(out) != 40 {
						return nil, false, fmt.Errorf("detour member: %d bytes, %v", len(out), e)
					}
				}
				e = r.Reset(src)
			}
			if e != nil {
				return nil, false, fmt.Errorf("member %d of %d: NewReader/Reset on the shared buffered source returned %v", i+1, len(c.Members), e)
			}
			r.Multistream(false)
			if e := hdrMatches(m.Hdr, r.Name, r.Comment, r.Extra, r.ModTime, r.OS); e != nil {
				return nil, false, fmt.Errorf("member %d: %v", i+1, e)
			}
			out, rerr := readAllChunks(r, c.Reads, 0)
			if e := hdrMatches(m.Hdr, r.Name, r.Comment, r.Extra, r.ModTime, r.OS); e != nil {
				return nil, false, fmt.Errorf("member %d, after reading it: %v", i+1, e)
			}
			want := m.Data.Bytes()
			if rerr != io.EOF || !bytes.Equal(out, want) {
				return nil, false, fmt.Errorf("member %d of %d (member-by-member mode): %d bytes then %v; want %d bytes then EOF; first difference at %d", i+1, len(c.Members), len(out), rerr, len(want), firstDiff(out, want))
			}
			// what is still obtainable from the source must be exactly the rest
			// (buffered bytes + what the underlying reader still has, observed without consuming)
			buffered, _ := src.Peek(src.Buffered())
			remaining := len(buffered) + under.Len()
			wantRest := all[bounds[i]:]
			if remaining != len(wantRest) || !bytes.HasPrefix(wantRest, buffered) {
				return nil, false, fmt.Errorf("after member %d of %d the buffered source holds %d bytes, but %d bytes follow that member (bufio size %d)", i+1, len(c.Members), remaining, len(wantRest), c.BufSrc)
			}
			prev = bounds[i]
		}
		_ = prev
		if len(c.Trail) == 0 {
			if e := r.Reset(src); e != io.EOF {
				return nil, false, fmt.Errorf("Reset after the last member with nothing following returned %v, want io.EOF", e)
			}
		}
	}
	labels = append(labels, "mode:"+c.Mode, fmt.Sprintf("members:%d", len(c.Members)), fmt.Sprintf("bufio:%d", c.BufSrc))
	for _, m := range c.Members {
		if n := m.Data.Len(); n >= 65000 {
			labels = append(labels, "member-payload-fills-the-output-window")
			break
		}
	}
	encs := map[string]bool{}
	for _, m := range c.Members {
		encs[m.Enc] = true
		if m.Data.Len() == 0 {
			labels = append(labels, "has-empty-member")
		}
	}
	if len(encs) > 1 {
		labels = append(labels, "mixed-encoders")
	}
	if len(c.Trail) > 0 {
		labels = append(labels, "trailing-data")
	}
	if c.CutMember != 0 {
		labels = append(labels, "member-ends-in-final-stored-block-with-data", "source-chunk-boundary-near-member-end")
	}
	if c.Reuse {
		labels = append(labels, "members-written-by-one-reused-writer")
	}
	if c.Detour {
		labels = append(labels, "detour-through-plain-source")
	}
	return labels, len(c.Members) >= 2, nil
}

func TestC08(t *testing.T) {
	rapid.Check(t, func(t *rapid.T) {
		c := drawC08(t)
		done := begin("C08", c)
		defer done()
		labels, nt, err := checkC08(c)
		if err != nil {
			saveLast("C08", c, err)
			t.Fatalf("C08 violated: %v", err)
		}
		stats.Record("C08", stats.Digest(c), nt, labels, func() any { return c })
	})
}

func init() {
	replayers["C08"] = func(raw json.RawMessage) error {
		var c C08Case
		if err := json.Unmarshal(raw, &c); err != nil {
			return err
		}
		_, _, err := checkC08(c)
		return err
	}
}

// buildMembersReused writes all members with one gzip Writer (settings of the first member), Reset between members.
func buildMembersReused(ms []Member) (z []byte, bounds []int, payload []byte, err error) {
	defer guardPanic(&err)
	var w anyWriter
	for i, m := range ms {
		var b bytes.Buffer
		if i == 0 {
			w, err = newContainerWriter("gzip", m.Enc, &b, m.Level, m.Hdr, nil)
			if err != nil {
				return nil, nil, nil, err
			}
		} else {
			w.Reset(&b)
			if gz, ok := w.(*fgzip.Writer); ok {
				applyHdr(m.Hdr, &gz.Name, &gz.Comment, &gz.Extra, &gz.ModTime, &gz.OS)
			}
			if gz, ok := w.(*stdgzip.Writer); ok {
				applyHdr(m.Hdr, &gz.Name, &gz.Comment, &gz.Extra, &gz.ModTime, &gz.OS)
			}
		}
		if e := writeMemberOps(w, m.Data.Bytes(), m.Ops); e != nil {
			return nil, nil, nil, fmt.Errorf("member %d: %v", i+1, e)
		}
		mz := b.Bytes()
		if m.HCRC {
			if mz, err = addHeaderCRC(mz); err != nil {
				return nil, nil, nil, err
			}
		}
		z = append(z, mz...)
		bounds = append(bounds, len(z))
		payload = append(payload, m.Data.Bytes()...)
	}
	return
}


// cutPos is the absolute offset of the requested chunk boundary (0 = none).
func (c C08Case) cutPos(bounds []int) int {
	if c.CutMember <= 0 || c.CutMember > len(bounds) {
		return 0
	}
	p := bounds[c.CutMember-1] - 8 + c.CutRel
	if p < 1 {
		return 0
	}
	return p
}

// cutReader delivers the bytes of r unchanged, but never lets one Read cross offset cut.
type cutReader struct {
	r   *bytes.Reader
	cut int
	pos int
}

func cutSource(r *bytes.Reader, cut int) io.Reader {
	if cut <= 0 {
		return r
	}
	return &cutReader{r: r, cut: cut}
}

func (c *cutReader) Read(p []byte) (int, error) {
	if c.pos < c.cut && len(p) > c.cut-c.pos {
		p = p[:c.cut-c.pos]
	}
	n, err := c.r.Read(p)
	c.pos += n
	return n, err
}
