package props

import (
	stdflate "compress/flate"
	stdgzip "compress/gzip"
	stdzlib "compress/zlib"
	"encoding/json"
	"fmt"
	"io"
	"testing"

	fflate "github.com/intel/fastgo/compress/flate"
	fgzip "github.com/intel/fastgo/compress/gzip"
	fzlib "github.com/intel/fastgo/compress/zlib"

	"pgregory.net/rapid"

	"verifharness/gen"
	"verifharness/iox"
	"verifharness/stats"
)

// C16: any call sequence is safe; Close is idempotent; parity with the standard library.

type C16Case struct {
	Set  PSetting `json:"set"`
	Seq  string   `json:"seq"` // one letter per call: e=Write(empty) s=Write(small) l=Write(large) F C R
	Seed uint64   `json:"seed"`
}

func c16Large(set PSetting) int {
	if set.Level == -2 {
		return 65536 + 7
	}
	if set.delegatedP() {
		return 70000
	}
	return 2*set.window() + 258 + 7
}

func c16Ops(c C16Case) (ops []gen.Op, total int) {
	large := c16Large(c.Set)
	for _, ch := range c.Seq {
		switch ch {
		case 'e':
			ops = append(ops, gen.Op{K: "W", N: 0})
		case 's':
			ops = append(ops, gen.Op{K: "W", N: 37})
			total += 37
		case 'l':
			ops = append(ops, gen.Op{K: "W", N: large})
			total += large
		case 'F':
			ops = append(ops, gen.Op{K: "F"})
		case 'C':
			ops = append(ops, gen.Op{K: "C"})
		case 'R':
			ops = append(ops, gen.Op{K: "R"})
		}
	}
	return
}

func checkC16(c C16Case) (labels []string, nontrivial bool, err error) {
	defer guardPanic(&err)
	ops, total := c16Ops(c)
	data := gen.Recipe{Segs: []gen.Seg{{Kind: "text", N: total, Seed: c.Seed}}}.Bytes()
	dict := c.Set.dictBytes()
	fs := &iox.Sink{}
	fw, err := newAnyWriter(fs, c.Set)
	if err != nil {
		return nil, false, fmt.Errorf("constructor: %v", err)
	}
	ss := &iox.Sink{}
	sw, err := newStdWriter(ss, c.Set)
	if err != nil {
		return nil, false, fmt.Errorf("harness: std constructor: %v", err)
	}
	got, _ := runOps(fw, fs, data, ops, func() *iox.Sink { return &iox.Sink{} })
	want, _ := runOps(sw, ss, data, ops, func() *iox.Sink { return &iox.Sink{} })
	if len(want) != len(ops) {
		return nil, false, fmt.Errorf("harness: the standard library twin panicked: %+v", want[len(want)-1])
	}
	closed := false // a Close has succeeded since the last Reset
	var emitted []byte
	written := 0
	start := 0
	off := 0
	afterClose, closeTwice := false, false
	for i, g := range got {
		w := want[i]
		if g.Panic != "" {
			return nil, false, fmt.Errorf("call %d of %q (%s) panicked: %s", i, c.Seq, g.K, g.Panic)
		}
		if (g.Err != nil) != (w.Err != nil) {
			return nil, false, fmt.Errorf("call %d of %q (%s %d): fastgo returned %v, the standard library's Writer returned %v", i, c.Seq, g.K, g.N, g.Err, w.Err)
		}
		if g.K == "W" && g.Err == nil && g.RetN != g.N {
			return nil, false, fmt.Errorf("call %d of %q: Write(%d) = (%d, nil)", i, c.Seq, g.N, g.RetN)
		}
		if g.K == "R" {
			closed = false
			emitted = emitted[:0]
			start = off
			written = 0
			continue
		}
		if closed {
			afterClose = true
			if g.K == "C" {
				closeTwice = true
			}
			if g.K == "C" && g.Err == nil && len(g.Out) > 0 {
				// the property's own clause, for flate, gzip and zlib alike (compress/zlib itself re-emits its trailer)
				return nil, false, fmt.Errorf("call %d of %q: a repeated Close returned nil and emitted %d more bytes (%s)", i, c.Seq, len(g.Out), hexPrefix(g.Out, 8))
			}
			if len(g.Out) > 0 && len(w.Out) == 0 {
				return nil, false, fmt.Errorf("call %d of %q (%s) after a successful Close emitted %d bytes (the standard library's Writer emits none)", i, c.Seq, g.K, len(g.Out))
			}
			if g.K == "W" {
				off += g.N
			}
			continue
		}
		emitted = append(emitted, g.Out...)
		if g.K == "W" {
			off += g.N
			if g.Err == nil {
				written += g.N
			}
		}
		if g.K == "C" && g.Err == nil {
			closed = true
			d := data[start : start+written]
			stdBroken := c.Set.Ctor == "dict" && knownActive("std-dict-stored-first-block") && len(dict) > 0
			if !stdBroken {
				if e := checkCompleteContainer(c.Set.Pkg, emitted, d, dict); e != nil {
					return nil, false, fmt.Errorf("call %d of %q: bytes emitted up to the first successful Close: %v", i, c.Seq, e)
				}
			}
		}
	}
	labels = append(labels, "setting:"+c.Set.String())
	if afterClose {
		labels = append(labels, "call-after-close")
	}
	if closeTwice {
		labels = append(labels, "close-twice")
	}
	nt := afterClose
	prevData := false
	for _, ch := range c.Seq {
		if ch == 'e' {
			nt = true
		}
		if (ch == 'F' || ch == 'C') && !prevData {
			nt = true
		}
		if ch == 's' || ch == 'l' {
			prevData = true
		}
		if ch == 'R' {
			prevData = false
		}
	}
	return labels, nt, nil
}

var c16Alphabet = []byte("eslFCR")

func c16Settings() (out []PSetting) {
	for _, lvl := range []int{-2, -1, 0, 1, 2, 6, 9} {
		out = append(out, PSetting{Pkg: "flate", WSetting: WSetting{Ctor: "4k", Level: lvl}})
		out = append(out, PSetting{Pkg: "gzip", WSetting: WSetting{Ctor: "new", Level: lvl}})
		out = append(out, PSetting{Pkg: "zlib", WSetting: WSetting{Ctor: "new", Level: lvl}})
	}
	for _, lvl := range []int{-2, 1, 2} {
		out = append(out, PSetting{Pkg: "flate", WSetting: WSetting{Ctor: "new", Level: lvl}})
	}
	// gzip header fields that cannot be written: every call that has to emit the header fails, in the
	// standard library and here alike, until Reset clears the fields
	out = append(out, PSetting{Pkg: "gzip", WSetting: WSetting{Ctor: "new", Level: 1}, Hdr: &GzHdr{Name: "n\u0100me"}})
	out = append(out, PSetting{Pkg: "gzip", WSetting: WSetting{Ctor: "new", Level: 6}, Hdr: &GzHdr{Comment: "nul\x00inside"}})
	return out
}

// TestC16Ex enumerates every sequence up to a bounded length over the alphabet,
// for every setting of c16Settings. Shardable: VERIF_SHARD of VERIF_NSHARDS.
func TestC16Ex(t *testing.T) {
	maxLen := 4
	if thorough() {
		maxLen = 5
	}
	shard, nshards := envInt("VERIF_SHARD", 0), envInt("VERIF_NSHARDS", 1)
	var seqs []string
	var rec func(prefix []byte)
	rec = func(prefix []byte) {
		if len(prefix) > 0 {
			seqs = append(seqs, string(prefix))
		}
		if len(prefix) == maxLen {
			return
		}
		for _, a := range c16Alphabet {
			rec(append(prefix, a))
		}
	}
	rec(nil)
	count := 0
	settings := c16Settings()
	for si, set := range settings {
		if si%nshards != shard {
			continue
		}
		for _, s := range seqs {
			c := C16Case{Set: set, Seq: s, Seed: 1}
			done := begin("C16", c)
			labels, nt, err := checkC16(c)
			done()
			if err != nil {
				saveLast("C16", c, err)
				t.Fatalf("C16 violated (exhaustive enumeration): %v", err)
			}
			stats.Record("C16", stats.Digest(c), nt, append(labels, "exhaustive-core"), func() any { return c })
			count++
		}
	}
	stats.Exhaustive("C16", fmt.Sprintf("all call sequences of length 1..%d over {Write(empty),Write(37),Write(buffer-full+7),Flush,Close,Reset} x %d settings (this shard's share)", maxLen, len(settings)), count)
}

func TestC16(t *testing.T) {
	rapid.Check(t, func(t *rapid.T) {
		var c C16Case
		c.Set = drawPSetting(t, false, true)
		n := rapid.IntRange(1, 40).Draw(t, "len")
		b := make([]byte, n)
		for i := range b {
			b[i] = rapid.SampledFrom([]byte("eessslFFCCR")).Draw(t, "call")
		}
		c.Seq = string(b)
		c.Seed = rapid.Uint64Range(0, 1000).Draw(t, "seed")
		done := begin("C16", c)
		defer done()
		labels, nt, err := checkC16(c)
		if err != nil {
			saveLast("C16", c, err)
			t.Fatalf("C16 violated: %v", err)
		}
		stats.Record("C16", stats.Digest(c), nt, labels, func() any { return c })
	})
}

// TestC16Ctor: constructors that mirror the standard library accept and reject
// exactly the levels it does (enumerated -5..12).
func TestC16Ctor(t *testing.T) {
	count := 0
	for lvl := -5; lvl <= 12; lvl++ {
		type pair struct {
			name     string
			fast, sd func() error
		}
		dict := []byte("dictionary")
		pairs := []pair{
			{"flate.NewWriter", func() error { _, e := fflate.NewWriter(io.Discard, lvl); return e }, func() error { _, e := stdflate.NewWriter(io.Discard, lvl); return e }},
			{"flate.NewWriterDict", func() error { _, e := fflate.NewWriterDict(io.Discard, lvl, dict); return e }, func() error { _, e := stdflate.NewWriterDict(io.Discard, lvl, dict); return e }},
			{"flate.NewWriterDict(nil)", func() error { _, e := fflate.NewWriterDict(io.Discard, lvl, nil); return e }, func() error { _, e := stdflate.NewWriterDict(io.Discard, lvl, nil); return e }},
			{"gzip.NewWriterLevel", func() error { _, e := fgzip.NewWriterLevel(io.Discard, lvl); return e }, func() error { _, e := stdgzip.NewWriterLevel(io.Discard, lvl); return e }},
			{"zlib.NewWriterLevel", func() error { _, e := fzlib.NewWriterLevel(io.Discard, lvl); return e }, func() error { _, e := stdzlib.NewWriterLevel(io.Discard, lvl); return e }},
			{"zlib.NewWriterLevelDict", func() error { _, e := fzlib.NewWriterLevelDict(io.Discard, lvl, dict); return e }, func() error { _, e := stdzlib.NewWriterLevelDict(io.Discard, lvl, dict); return e }},
		}
		for _, p := range pairs {
			var fe error
			func() {
				defer guardPanic(&fe)
				fe = p.fast()
			}()
			se := p.sd()
			c := map[string]any{"ctor": p.name, "level": lvl}
			if (fe != nil) != (se != nil) {
				err := fmt.Errorf("%s(level %d): fastgo returns %v, the standard library %v", p.name, lvl, fe, se)
				saveLast("C16", c, err)
				t.Fatalf("C16 violated (constructors): %v", err)
			}
			stats.Record("C16", stats.Digest(c), lvl < -2 || lvl > 9, []string{"constructor-domain"}, func() any { return c })
			count++
		}
	}
	stats.Exhaustive("C16", "constructor x level in [-5,12]", count)
}

func init() {
	replayers["C16"] = func(raw json.RawMessage) error {
		var c C16Case
		if err := json.Unmarshal(raw, &c); err != nil {
			return err
		}
		if c.Seq == "" {
			return fmt.Errorf("constructor-domain cases are replayed by running TestC16Ctor")
		}
		_, _, err := checkC16(c)
		return err
	}
}
