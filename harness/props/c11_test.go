package props

import (
	"bytes"
	"encoding/json"
	"errors"
	"fmt"
	"io"
	"testing"

	fflate "github.com/intel/fastgo/compress/flate"
	fgzip "github.com/intel/fastgo/compress/gzip"
	fzlib "github.com/intel/fastgo/compress/zlib"

	"pgregory.net/rapid"

	"verifharness/gen"
	"verifharness/iox"
	"verifharness/refinflate"
	"verifharness/stats"
	"verifharness/synth"
)

// C11: the Reader delivers what it already has: no waiting on input it does not need.

type C11Case struct {
	Pkg     string        `json:"pkg"` // flate | gzip | zlib
	M       Member        `json:"member"`
	Point   int           `json:"point"`    // index of the flush point the source stops at; -1 = end of the stream
	After   int           `json:"after"`    // 0 would block (over-demand sentinel), 1 a source error, 2 unrelated bytes
	Chunks  []int         `json:"chunks"`   // chunking of the released prefix
	BufSize int           `json:"buf_size"` // 0 = plain source (Reader's own 4096-byte bufio); else *bufio.Reader of this size
	Reads   []int         `json:"reads"`
	BodyEnd bool          `json:"body_end,omitempty"` // gzip/zlib: the source stops at the end of the DEFLATE body (trailer not delivered): all data is due, io.EOF is not
	Multi   bool          `json:"multi,omitempty"`    // gzip: default multistream mode instead of Multistream(false)
	Synth   *synth.Stream `json:"synth,omitempty"`    // flate only: a synthesised stream (sync points = its empty stored blocks) instead of a written member
	Steps   bool          `json:"steps,omitempty"`    // request/response: the source delivers up to the first flush point, and the next piece only when asked again - which may happen only after everything before has been handed out
}

var errSourceBroke = errors.New("source broke after the flush point")

func drawC11(t *rapid.T) C11Case {
	var c C11Case
	c.Pkg = rapid.SampledFrom([]string{"flate", "flate", "gzip", "zlib"}).Draw(t, "pkg")
	c.M.Enc = rapid.SampledFrom([]string{"fast", "fast", "std"}).Draw(t, "enc")
	c.M.Level = rapid.SampledFrom([]int{-2, -1, 1, 2, 2, 6, 0}).Draw(t, "level")
	// data and a Write/Flush sequence with at least one Flush
	n := gen.DrawLen(t, "total", 40<<10)
	if rapid.IntRange(0, 3).Draw(t, "past64k") == 0 {
		// output beyond the 64 KiB history buffer: the decoder stops for lack of output room
		n = rapid.SampledFrom([]int{65536, 131072, 65536 + 4096}).Draw(t, "bigT") + rapid.IntRange(-16, 64).Draw(t, "bigd")
	}
	c.M.Data = gen.DrawRecipeN(t, n)
	nf := rapid.IntRange(1, 4).Draw(t, "nflush")
	var fl []int
	for i := 0; i < nf; i++ {
		fl = append(fl, rapid.IntRange(0, n).Draw(t, "fpos"))
	}
	if n >= 65536 && rapid.Bool().Draw(t, "flushatwindow") {
		// a flush point where the decoder's 64 KiB output window is exactly (or nearly) full: the sync
		// marker is then split between what the decoder already holds and unread input
		at := rapid.SampledFrom([]int{65536, 65536 + 32768, 131072}).Draw(t, "fwin") + rapid.IntRange(-6, 6).Draw(t, "fwind")
		if at >= 0 && at <= n {
			fl[0] = at
		}
	}
	c.Steps = rapid.IntRange(0, 2).Draw(t, "steps") == 0
	c.M.Ops = buildOps(n, fl, gen.DrawCuts(t, n, "w"), nil)
	if rapid.IntRange(0, 3).Draw(t, "atend") == 0 {
		c.Point = -1
	} else {
		c.Point = rapid.IntRange(0, nf-1).Draw(t, "point")
	}
	if c.Pkg == "flate" && rapid.IntRange(0, 3).Draw(t, "usesynth") == 0 {
		// block shapes no Writer here emits: e.g. a final non-empty stored block, fixed blocks, empty stored blocks as sync points
		sy := drawSynth(t)
		if rapid.Bool().Draw(t, "finalstored") {
			sy.Blocks = append(sy.Blocks, synth.BlockSpec{Type: 0, N: rapid.IntRange(1, 300).Draw(t, "fsn"), Seed: 9, Alpha: 256})
		}
		if rapid.Bool().Draw(t, "syncs") {
			at := rapid.IntRange(0, len(sy.Blocks)-1).Draw(t, "syncat")
			bl := append([]synth.BlockSpec(nil), sy.Blocks[:at]...)
			bl = append(bl, synth.BlockSpec{Type: 0, N: 0})
			sy.Blocks = append(bl, sy.Blocks[at:]...)
		}
		c.Synth = sy
		c.Point = rapid.IntRange(-1, 3).Draw(t, "spoint")
	}
	if c.Pkg != "flate" && c.Synth == nil {
		c.BodyEnd = rapid.IntRange(0, 3).Draw(t, "bodyend") == 0
		if c.Pkg == "gzip" {
			c.Multi = rapid.Bool().Draw(t, "multi")
		}
	}
	c.After = rapid.IntRange(0, 2).Draw(t, "after")
	if rapid.Bool().Draw(t, "chunked") {
		k := rapid.IntRange(1, 5).Draw(t, "nch")
		for i := 0; i < k; i++ {
			c.Chunks = append(c.Chunks, rapid.SampledFrom([]int{1, 2, 7, 16, 100, 1000, 4096}).Draw(t, "ch"))
		}
	}
	c.BufSize = rapid.SampledFrom([]int{0, 0, 16, 64, 4096, 65536}).Draw(t, "bufsize")
	c.Reads = drawReadSizes(t)
	return c
}

// flushTrace writes the member and records (bytes emitted, data written) at every Flush and at Close.
func flushTrace(pkg string, m Member) (z []byte, points [][2]int, err error) {
	defer guardPanic(&err)
	sink := &iox.Sink{}
	w, err := newContainerWriter2(pkg, m, sink)
	if err != nil {
		return nil, nil, err
	}
	data := m.Data.Bytes()
	off := 0
	for i, op := range m.Ops {
		switch op.K {
		case "W":
			if n, e := w.Write(data[off : off+op.N]); e != nil || n != op.N {
				return nil, nil, fmt.Errorf("op %d Write = (%d, %v)", i, n, e)
			}
			off += op.N
		case "F":
			if e := w.Flush(); e != nil {
				return nil, nil, fmt.Errorf("op %d Flush = %v", i, e)
			}
			points = append(points, [2]int{sink.Len(), off})
		}
	}
	if e := w.Close(); e != nil {
		return nil, nil, e
	}
	return sink.Bytes(), points, nil
}

func newContainerWriter2(pkg string, m Member, dst io.Writer) (anyWriter, error) {
	if pkg == "flate" {
		if m.Enc == "std" {
			return newStdWriter(dst, PSetting{Pkg: "flate", WSetting: WSetting{Ctor: "new", Level: m.Level}})
		}
		return newAnyWriter(dst, PSetting{Pkg: "flate", WSetting: WSetting{Ctor: "new", Level: m.Level}})
	}
	return newContainerWriter(pkg, m.Enc, dst, m.Level, m.Hdr, nil)
}

func checkC11(c C11Case) (labels []string, nontrivial bool, err error) {
	defer guardPanic(&err)
	var z []byte
	var points [][2]int
	var data []byte
	if c.Synth != nil {
		if c.Pkg != "flate" {
			return nil, false, fmt.Errorf("harness: synthesised C11 streams are flate only")
		}
		b := c.Synth.Build()
		ref := refinflate.Inflate(b.Bytes, refinflate.Options{})
		if e := selfCheck(b.Bytes, nil, ref); e != nil {
			return nil, false, e
		}
		if ref.Verdict != refinflate.Valid || !bytes.Equal(ref.Out, b.Expected) {
			return nil, false, &oracleError{"synthesised C11 stream is not valid"}
		}
		z, data = b.Bytes[:ref.EndByte], ref.Out
		for _, sp := range ref.Syncs {
			points = append(points, [2]int{sp.ByteEnd, sp.OutLen})
		}
	} else {
		var err error
		z, points, err = flushTrace(c.Pkg, c.M)
		if err != nil {
			return nil, false, err
		}
		data = c.M.Data.Bytes()
	}
	release, want := len(z), len(data)
	atEnd := c.Point < 0 || c.Point >= len(points)
	if !atEnd {
		release, want = points[c.Point][0], points[c.Point][1]
	}
	if c.BodyEnd {
		// everything up to the last byte of the DEFLATE body, but not the trailer
		switch c.Pkg {
		case "gzip":
			g := refinflate.ParseGzip(z, false)
			if g.Verdict != refinflate.CValid {
				return nil, false, &oracleError{"C11: member does not parse"}
			}
			release = g.Members[0].BodyEnd
		case "zlib":
			zr := refinflate.ParseZlib(z, nil)
			if zr.Verdict != refinflate.CValid {
				return nil, false, &oracleError{"C11: stream does not parse"}
			}
			release = zr.BodyEnd
		}
		want, atEnd = len(data), false
	} else if atEnd && c.Multi {
		// in multistream mode the Reader legitimately looks for a next member after the trailer:
		// the stream-end case is only meaningful in single-member mode
		c.Multi = false
	}
	D := data[:want]
	src := &iox.Gated{Data: z, Release: release, Sizes: c.Chunks, Mode: c.After, Err: errSourceBroke, Junk: 0x55}
	// request/response delivery: every flush point before the final one is a gate of its own
	handed := 0 // bytes returned by completed Read calls
	var stepErr error
	if c.Steps && !c.BodyEnd {
		var steps [][2]int
		for _, p := range points {
			if p[0] < release {
				steps = append(steps, p)
			}
		}
		steps = append(steps, [2]int{release, want})
		cur := 0
		src.Release = steps[0][0]
		src.OnOver = func() bool {
			if handed < steps[cur][1] && stepErr == nil {
				stepErr = fmt.Errorf("with %d of the compressed bytes delivered (a sync-flush point; they encode %d bytes) and %d bytes handed out, the Reader demanded more input", steps[cur][0], steps[cur][1], handed)
			}
			if cur+1 < len(steps) {
				cur++
				src.Release = steps[cur][0]
				return true
			}
			return false
		}
	}
	var under io.Reader = src
	if c.BufSize > 0 {
		under = newBufio(src, c.BufSize)
	}
	var r io.Reader
	switch c.Pkg {
	case "gzip":
		gz, e := fgzip.NewReader(under)
		if e != nil {
			return nil, false, fmt.Errorf("gzip.NewReader with the header delivered: %v (over-demands: %d)", e, src.Over)
		}
		if !c.Multi {
			gz.Multistream(false)
		}
		r = gz
	case "zlib":
		zr, e := fzlib.NewReader(under)
		if e != nil {
			return nil, false, fmt.Errorf("zlib.NewReader with the header delivered: %v (over-demands: %d)", e, src.Over)
		}
		r = zr
	default:
		r = fflate.NewReader(under)
	}
	if src.Over != 0 {
		return nil, false, fmt.Errorf("%s: the constructor demanded input beyond the %d delivered bytes (a sync-flush point or the end of the stream): it would block", c.Pkg, release)
	}
	what := fmt.Sprintf("%s Reader, source delivered %d of %d compressed bytes (up to %s), which encode %d bytes", c.Pkg, release, len(z), map[bool]string{true: "the end of the stream", false: "a sync-flush point"}[atEnd], want)
	var out []byte
	maxSz := 1
	for _, s := range c.Reads {
		if s > maxSz {
			maxSz = s
		}
	}
	buf := make([]byte, maxSz)
	var rerr error
	zero := 0
	for i := 0; len(out) < len(D) || atEnd; i++ {
		handedBefore, overBefore := len(out), src.Over
		p := buf[:c.Reads[i%len(c.Reads)]]
		n, e := r.Read(p)
		if n < 0 || n > len(p) {
			return nil, false, fmt.Errorf("%s: Read returned n=%d for a %d-byte buffer", what, n, len(p))
		}
		// incremental comparison with D (a prefix check on the whole output each time would be quadratic)
		bad := -1
		for k := 0; k < n; k++ {
			if pos := len(out) + k; pos >= len(D) || D[pos] != p[k] {
				bad = pos
				break
			}
		}
		out = append(out, p[:n]...)
		handed = len(out)
		if stepErr != nil {
			return nil, false, fmt.Errorf("%s (request/response delivery): %v", what, stepErr)
		}
		if bad >= 0 {
			return nil, false, fmt.Errorf("%s: output is not the data written before that point (first difference at %d)", what, bad)
		}
		if src.Over > overBefore && handedBefore < len(D) {
			return nil, false, fmt.Errorf("%s: after handing out %d bytes the Reader demanded more input from the source (which would block) although %d more bytes are decodable from what it already has", what, handedBefore, len(D)-handedBefore)
		}
		if e != nil {
			rerr = e
			break
		}
		if n == 0 {
			zero++
			if zero > 10000 {
				return nil, false, fmt.Errorf("%s: %v", what, errLivelock)
			}
		} else {
			zero = 0
		}
	}
	if len(out) < len(D) {
		return nil, false, fmt.Errorf("%s: Reader returned %v after only %d bytes", what, rerr, len(out))
	}
	if atEnd {
		if rerr != io.EOF || !bytes.Equal(out, D) {
			return nil, false, fmt.Errorf("%s: got %d bytes then %v, want %d bytes then io.EOF", what, len(out), rerr, len(D))
		}
		if src.Over != 0 {
			return nil, false, fmt.Errorf("%s: io.EOF arrived only after %d further demand(s) on the source, which would block", what, src.Over)
		}
	}
	labels = append(labels, "pkg:"+c.Pkg, fmt.Sprintf("after:%d", c.After), fmt.Sprintf("bufio:%d", c.BufSize), "enc:"+c.M.Enc)
	if c.Synth != nil {
		labels = append(labels, "synthesised-stream")
	}
	if src.OnOver != nil {
		labels = append(labels, "request-response-delivery")
	}
	if c.BodyEnd {
		labels = append(labels, "prefix-ends-at-body-end-before-trailer")
	} else if atEnd {
		labels = append(labels, "prefix-ends-at-stream-end")
	} else {
		labels = append(labels, "prefix-ends-at-flush-point")
	}
	eff := c.BufSize
	if eff == 0 {
		eff = 4096
	}
	return labels, len(D) >= 1 && release < eff, nil
}

func TestC11(t *testing.T) {
	rapid.Check(t, func(t *rapid.T) {
		c := drawC11(t)
		done := begin("C11", c)
		defer done()
		labels, nt, err := checkC11(c)
		if err != nil {
			saveLast("C11", c, err)
			t.Fatalf("C11 violated: %v", err)
		}
		stats.Record("C11", stats.Digest(c), nt, labels, func() any { return c })
	})
}

func init() {
	replayers["C11"] = func(raw json.RawMessage) error {
		var c C11Case
		if err := json.Unmarshal(raw, &c); err != nil {
			return err
		}
		_, _, err := checkC11(c)
		return err
	}
}
