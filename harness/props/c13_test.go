package props

import (
	"bufio"
	"bytes"
	stdflate "compress/flate"
	"compress/zlib"
	"encoding/json"
	"fmt"
	"io"
	"testing"

	fflate "github.com/intel/fastgo/compress/flate"
	fgzip "github.com/intel/fastgo/compress/gzip"
	fzlib "github.com/intel/fastgo/compress/zlib"

	"pgregory.net/rapid"

	"verifharness/gen"
	"verifharness/stats"
	"verifharness/synth"
)

// C13: Reader.Reset makes a used Reader indistinguishable from a new one.

// RInput is one compressed input for a package-level Reader.
type RInput struct {
	Stream  StreamSpec   `json:"stream"`             // the DEFLATE body
	Hdr     *GzHdr       `json:"hdr,omitempty"`      // gzip: header fields
	Dict    *gen.Recipe  `json:"dict,omitempty"`     // zlib: dictionary the stream was written with (FDICT set when non-nil)
	RDict   *gen.Recipe  `json:"rdict,omitempty"`    // zlib: dictionary handed to the reader (may differ / be nil)
	More    []StreamSpec `json:"more,omitempty"`     // gzip: further members appended after this one
	DLevel  int          `json:"dlevel,omitempty"`   // flate with Dict: compress/flate level the stream is written with (0 = 6)
	BadSum  bool         `json:"badsum,omitempty"`   // corrupt the trailer checksum
	CutTail int          `json:"cut_tail,omitempty"` // drop this many bytes from the end of the container
}

type RUse struct {
	In     RInput `json:"in"`
	Plan   string `json:"plan"` // none | partial | full
	K      int    `json:"k,omitempty"`
	Single bool   `json:"single,omitempty"`  // gzip: Multistream(false) was called during this use
	Close  bool   `json:"close,omitempty"`   // the caller Closes the Reader before the next Reset (pool idiom)
	OwnBuf int    `json:"own_buf,omitempty"` // this use reads through a caller-owned *bufio.Reader of this size with extra bytes after the stream; the Reader must never touch it again once Reset onto another source
}

type C13Case struct {
	Pkg    string `json:"pkg"` // flate | gzip | zlib
	Before []RUse `json:"before"`
	Next   RInput `json:"next"`
	Reads  []int  `json:"reads"`
	Chunks []int  `json:"chunks"`
	// SameSrc: every use hands the Reader the same source object (not a *bufio.Reader), refilled in
	// between; earlier inputs are followed by Suffix further bytes that the Reader may have read ahead
	SameSrc bool `json:"same_src,omitempty"`
	Suffix  int  `json:"suffix,omitempty"`
	// SharedDict: zlib dictionaries of all uses are written into one buffer owned by the caller
	// (same backing array; contents replaced between uses)
	SharedDict bool `json:"shared_dict,omitempty"`
}

// refillSrc is a source object a caller keeps and refills (a pooled connection wrapper, a
// bytes.Reader that is Reset): the same value is handed to every NewReader/Reset.
type refillSrc struct{ cur io.Reader }

func (r *refillSrc) Read(p []byte) (int, error) { return r.cur.Read(p) }

func recipeBytes(r *gen.Recipe) []byte {
	if r == nil {
		return nil
	}
	b := r.Bytes()
	if b == nil {
		b = []byte{}
	}
	return b
}

// container wraps the DEFLATE body of in for pkg. For zlib with a dictionary the
// body is produced by compress/zlib itself (the body must reference the dictionary).
func buildContainer(pkg string, in RInput) ([]byte, error) {
	body, expected, known, err := in.Stream.Build()
	if err != nil {
		return nil, err
	}
	var out []byte
	switch pkg {
	case "flate":
		out = body
		if in.Dict != nil {
			// written by compress/flate with the dictionary, so that matches may reach into it
			var b bytes.Buffer
			lvl := in.DLevel
			if lvl == 0 {
				lvl = 6
			}
			if lvl == 10 {
				lvl = 0 // stored blocks
			}
			w, e := stdflate.NewWriterDict(&b, lvl, recipeBytes(in.Dict))
			if e != nil {
				return nil, e
			}
			data := expected
			if !known {
				data = body
			}
			w.Write(data)
			w.Close()
			out = b.Bytes()
		}
	case "gzip":
		h := in.Hdr
		if h == nil {
			h = &GzHdr{}
		}
		out = gzipWrap(body, expected, known, h)
		for _, ms := range in.More {
			b2, e2, k2, err := ms.Build()
			if err != nil {
				return nil, err
			}
			out = append(out, gzipWrap(b2, e2, k2, &GzHdr{})...)
		}
	case "zlib":
		if in.Dict != nil {
			// write with the standard library so that matches may reach into the dictionary
			var b bytes.Buffer
			w, e := zlib.NewWriterLevelDict(&b, 6, recipeBytes(in.Dict))
			if e != nil {
				return nil, e
			}
			data := expected
			if !known {
				data = body
			}
			w.Write(data)
			w.Close()
			out = b.Bytes()
		} else {
			out = zlibWrap(body, expected, known)
		}
	}
	if in.BadSum && len(out) > 0 {
		out = append([]byte(nil), out...)
		out[len(out)-1] ^= 0x55
	}
	if in.CutTail > 0 {
		c := in.CutTail
		if c > len(out) {
			c = len(out)
		}
		out = out[:len(out)-c]
	}
	return out, nil
}

// transcript of reading a container to the end with a given Reader.
type transcript struct {
	OpenErr string
	Hdr     string
	Out     []byte
	Err     string
	Kind    string
}

// looseDiff compares two transcripts of Readers with different implementations (fastgo's own
// inflater after Reset(src, dict) against compress/flate's, which is what NewReaderDict returns):
// the kind of the final error must agree, and what was handed out before an error may differ only
// in how much of the common output was delivered.
func (a transcript) looseDiff(b transcript) string {
	if a.OpenErr != b.OpenErr {
		return fmt.Sprintf("Reset returned %q, a new Reader's constructor returns %q", a.OpenErr, b.OpenErr)
	}
	if a.Kind != b.Kind {
		return fmt.Sprintf("final error %q (%d bytes), a new Reader (NewReaderDict) ends with %q (%d bytes)", a.Err, len(a.Out), b.Err, len(b.Out))
	}
	if a.Kind == "EOF" {
		if !bytes.Equal(a.Out, b.Out) {
			return fmt.Sprintf("output differs at byte %d (%d bytes vs %d from a new Reader)", firstDiff(a.Out, b.Out), len(a.Out), len(b.Out))
		}
	} else if !bytes.HasPrefix(a.Out, b.Out) && !bytes.HasPrefix(b.Out, a.Out) {
		return fmt.Sprintf("output before the error differs at byte %d from a new Reader's", firstDiff(a.Out, b.Out))
	}
	return ""
}

func (a transcript) diff(b transcript) string {
	if a.OpenErr != b.OpenErr {
		return fmt.Sprintf("Reset returned %q, a new Reader's constructor returns %q", a.OpenErr, b.OpenErr)
	}
	if a.Hdr != b.Hdr {
		return fmt.Sprintf("header %s, a new Reader sees %s", a.Hdr, b.Hdr)
	}
	if !bytes.Equal(a.Out, b.Out) {
		return fmt.Sprintf("output differs at byte %d (%d bytes vs %d from a new Reader; %s vs %s)", firstDiff(a.Out, b.Out), len(a.Out), len(b.Out), hexPrefix(a.Out, 12), hexPrefix(b.Out, 12))
	}
	if a.Err != b.Err {
		return fmt.Sprintf("final error %q, a new Reader ends with %q (after %d bytes)", a.Err, b.Err, len(a.Out))
	}
	return ""
}

func drain(r io.Reader, reads []int) ([]byte, string, string) {
	out, err := readAllChunks(r, reads, 0)
	return out, errStr(err), errKind(err)
}

func hdrString(h fgzip.Header) string {
	return fmt.Sprintf("{name=%q comment=%q extra=%x mtime=%d os=%d}", h.Name, h.Comment, h.Extra, h.ModTime.Unix(), h.OS)
}

type pkgReader struct {
	pkg   string
	model bool // the freshly constructed Reader the used one is compared with
	fl    io.ReadCloser
	gz    *fgzip.Reader
	zl    io.ReadCloser
}

// open constructs (first use) or resets the reader onto z.
func (p *pkgReader) open(z []byte, chunks []int, rdict []byte, fresh bool) (t transcript, r io.Reader) {
	return p.openSrc(makeSource(z, chunks, false), rdict, fresh)
}

func (p *pkgReader) openSrc(src io.Reader, rdict []byte, fresh bool) (t transcript, r io.Reader) {
	switch p.pkg {
	case "flate":
		if p.model && len(rdict) > 0 {
			// the model: what the package's constructor for a dictionary returns
			p.fl = fflate.NewReaderDict(src, rdict)
		} else if (p.fl == nil || fresh) && len(rdict) == 0 {
			p.fl = fflate.NewReader(src)
		} else {
			if p.fl == nil || fresh {
				// the Reader under test is always fastgo's own: a dictionary reaches it through Reset
				p.fl = fflate.NewReader(bytes.NewReader(nil))
			}
			if e := p.fl.(fflate.Resetter).Reset(src, rdict); e != nil {
				t.OpenErr = e.Error()
				return t, nil
			}
		}
		return t, p.fl
	case "gzip":
		var e error
		if p.gz == nil || fresh {
			p.gz, e = fgzip.NewReader(src)
			if e != nil {
				p.gz = nil
			}
		} else {
			e = p.gz.Reset(src)
		}
		if e != nil {
			t.OpenErr = e.Error()
			return t, nil
		}
		t.Hdr = hdrString(p.gz.Header)
		return t, p.gz
	default:
		var e error
		if p.zl == nil || fresh {
			p.zl, e = fzlib.NewReaderDict(src, rdict)
			if e != nil {
				p.zl = nil
			}
		} else {
			e = p.zl.(fzlib.Resetter).Reset(src, rdict)
		}
		if e != nil {
			t.OpenErr = e.Error()
			return t, nil
		}
		return t, p.zl
	}
}

func drawRInput(t *rapid.T, pkg string, allowBad bool) RInput {
	var in RInput
	kind := rapid.IntRange(0, 9).Draw(t, "inkind")
	switch {
	case allowBad && kind == 0:
		in.Stream, _ = drawMalformed(t)
	case allowBad && kind <= 2:
		// back-references that reach before the start of this stream
		s := drawSynth(t)
		s.Fault = &synth.Fault{Kind: synth.FDistTooFar, Block: 0, At: rapid.SampledFrom([]int{0, 0, 1, 2, 5, 40}).Draw(t, "fat"), Arg: rapid.SampledFrom([]int{0, 1, 7, 100, 5000, 30000}).Draw(t, "farg")}
		s.Tail = rapid.SampledFrom([]int{0, 100, 600}).Draw(t, "tail")
		in.Stream = StreamSpec{Kind: "synth", Synth: s}
	default:
		in.Stream = drawValidStream(t, 64<<10)
	}
	if pkg == "gzip" && rapid.IntRange(0, 2).Draw(t, "hdr") == 0 {
		in.Hdr = &GzHdr{Name: rapid.StringMatching(`[a-z]{0,6}`).Draw(t, "name"), Comment: rapid.StringMatching(`[a-z]{0,6}`).Draw(t, "comment"), MTime: int64(rapid.IntRange(0, 1<<30).Draw(t, "mtime")), OS: byte(rapid.IntRange(0, 255).Draw(t, "os"))}
	}
	if pkg == "flate" {
		// flate.Resetter's dictionary argument: Reset(src, dict) against NewReaderDict(src, dict)
		switch rapid.IntRange(0, 11).Draw(t, "fdict") {
		case 0, 1:
			d := gen.Recipe{Segs: []gen.Seg{{Kind: "text", N: rapid.SampledFrom([]int{1, 16, 300, 2000, 32768, 40000}).Draw(t, "dlen"), Seed: 3}}}
			in.Dict, in.RDict = &d, &d
			in.DLevel = rapid.SampledFrom([]int{6, 6, 10, -2, 1, 9}).Draw(t, "dlevel")
			if rapid.IntRange(0, 3).Draw(t, "dbig") == 0 {
				// more than one output window of data behind a dictionary
				big := gen.Recipe{Segs: []gen.Seg{{Kind: "text", N: rapid.SampledFrom([]int{65536, 70000, 140000}).Draw(t, "dbign"), Seed: 9}}}
				in.Stream = StreamSpec{Kind: "std", Set: &WSetting{Ctor: "new", Level: 1}, Data: &big, Ops: []gen.Op{{K: "W", N: big.Len()}}}
			}
		case 2:
			d := gen.Recipe{Segs: []gen.Seg{{Kind: "text", N: 100, Seed: 5}}}
			in.RDict = &d // reader given a dictionary the stream does not refer to
			in.Stream = drawValidStream(t, 64<<10)
		}
	}
	if pkg == "zlib" {
		switch rapid.IntRange(0, 5).Draw(t, "zdict") {
		case 0:
			d := gen.Recipe{Segs: []gen.Seg{{Kind: "text", N: rapid.IntRange(1, 2000).Draw(t, "dlen"), Seed: 3}}}
			in.Dict, in.RDict = &d, &d
		case 1:
			d := gen.Recipe{Segs: []gen.Seg{{Kind: "text", N: rapid.IntRange(1, 2000).Draw(t, "dlen"), Seed: 3}}}
			w := gen.Recipe{Segs: []gen.Seg{{Kind: "text", N: 50, Seed: 4}}}
			in.Dict, in.RDict = &d, &w // wrong dictionary
		case 2:
			d := gen.Recipe{Segs: []gen.Seg{{Kind: "text", N: 100, Seed: 5}}}
			in.RDict = &d // reader given a dictionary the stream does not ask for
		case 3:
			d := gen.Recipe{Segs: []gen.Seg{{Kind: "text", N: 300, Seed: 6}}}
			in.Dict = &d // stream needs one, reader has none
		}
	}
	if pkg != "flate" && allowBad {
		switch rapid.IntRange(0, 9).Draw(t, "cbad") {
		case 0:
			in.BadSum = true
		case 1:
			in.CutTail = rapid.IntRange(1, 12).Draw(t, "cuttail")
		}
	}
	return in
}

func drawC13(t *rapid.T) C13Case {
	var c C13Case
	c.Pkg = rapid.SampledFrom([]string{"flate", "flate", "gzip", "zlib"}).Draw(t, "pkg")
	n := rapid.SampledFrom([]int{1, 1, 2, 3}).Draw(t, "nbefore")
	for i := 0; i < n; i++ {
		u := RUse{In: drawRInput(t, c.Pkg, true)}
		u.Plan = rapid.SampledFrom([]string{"none", "partial", "partial", "partial", "full"}).Draw(t, "plan")
		if c.Pkg == "gzip" {
			u.Single = rapid.IntRange(0, 2).Draw(t, "single") == 0
		}
		if rapid.IntRange(0, 2).Draw(t, "ownbuf") == 0 {
			u.OwnBuf = rapid.SampledFrom([]int{16, 64, 4096, 65536}).Draw(t, "ownbufsize")
		}
		u.K = rapid.SampledFrom([]int{1, 2, 10, 100, 1000, 5000, 40000}).Draw(t, "k")
		u.Close = rapid.IntRange(0, 2).Draw(t, "close") == 0
		c.Before = append(c.Before, u)
	}
	c.Next = drawRInput(t, c.Pkg, true)
	if c.Pkg == "gzip" && rapid.IntRange(0, 2).Draw(t, "moremembers") == 0 {
		for i := 0; i < rapid.IntRange(1, 2).Draw(t, "nmore"); i++ {
			c.Next.More = append(c.Next.More, drawValidStream(t, 4<<10))
		}
	}
	if c.Pkg == "flate" && rapid.IntRange(0, 5).Draw(t, "sandwich") == 0 {
		// table-poisoning sandwich: a fixed-Huffman stream, then a dynamic header that is rejected late
		// (after the distance table has been rebuilt), then a fixed-Huffman stream with matches
		fixed := func(seed uint64) RInput {
			return RInput{Stream: StreamSpec{Kind: "synth", Synth: &synth.Stream{Blocks: []synth.BlockSpec{{Type: 1, N: rapid.IntRange(20, 400).Draw(t, "fixn"), Seed: seed, Alpha: 4, MatchPct: 60, DistMode: rapid.IntRange(0, 5).Draw(t, "fixdm")}}}}}
		}
		bad := drawSynth(t)
		bad.Blocks = bad.Blocks[:1]
		bad.Blocks[0].Type = 2
		bad.Blocks[0].ExtraDist = 30
		bad.Blocks[0].DistCode = 2
		bad.Fault = &synth.Fault{Kind: rapid.SampledFrom([]string{synth.FOverLit, synth.FOverLit, synth.FMissingEOB, synth.FIncompleteLit}).Draw(t, "latefault"), Block: 0, At: 0, Arg: rapid.IntRange(0, 3).Draw(t, "farg")}
		bad.Tail = 40
		c.Before = []RUse{{In: fixed(1), Plan: "full"}, {In: RInput{Stream: StreamSpec{Kind: "synth", Synth: bad}}, Plan: "full"}}
		c.Next = fixed(2)
	}
	c.Reads = drawReadSizes(t)
	c.Chunks, _ = drawChunks(t)
	if rapid.IntRange(0, 3).Draw(t, "samesrc") == 0 {
		c.SameSrc = true
		c.Suffix = rapid.SampledFrom([]int{0, 1, 8, 40, 40, 5000}).Draw(t, "suffix")
		for i := range c.Before {
			c.Before[i].OwnBuf = 0
			if rapid.IntRange(0, 1).Draw(t, "fullplan") == 0 {
				c.Before[i].Plan = "full"
			}
		}
	}
	if c.Pkg == "zlib" && rapid.IntRange(0, 2).Draw(t, "shareddict") == 0 {
		// a rolling dictionary kept in one buffer: same length every time, contents replaced
		c.SharedDict = true
		n := rapid.IntRange(1, 600).Draw(t, "sdlen")
		mk := func(seed uint64) *gen.Recipe {
			return &gen.Recipe{Segs: []gen.Seg{{Kind: "text", N: n, Seed: seed}}}
		}
		for i := range c.Before {
			d := mk(uint64(10 + i))
			c.Before[i].In.Dict, c.Before[i].In.RDict = d, d
			if c.Before[i].In.Stream.Kind != "valid" && rapid.Bool().Draw(t, "mkvalid") {
				c.Before[i].In.Stream = drawValidStream(t, 8<<10)
			}
		}
		switch rapid.IntRange(0, 2).Draw(t, "sdnext") {
		case 0:
			d := mk(99)
			c.Next.Dict, c.Next.RDict = d, d
		case 1:
			// stream written with the contents an earlier use had, reader holds the new contents
			c.Next.Dict, c.Next.RDict = mk(uint64(10+len(c.Before)-1)), mk(99)
		default:
			// stream written with the new contents, checked against ... the new contents again after a wrong one
			c.Next.Dict, c.Next.RDict = mk(99), mk(uint64(10+len(c.Before)-1))
		}
		if rapid.Bool().Draw(t, "sdvalid") {
			c.Next.Stream = drawValidStream(t, 8<<10)
			c.Next.BadSum, c.Next.CutTail = false, 0
		}
	}
	return c
}

func checkC13(c C13Case) (labels []string, nontrivial bool, err error) {
	defer guardPanic(&err)
	used := &pkgReader{pkg: c.Pkg}
	leftover := false
	type callerBuf struct {
		br       *bufio.Reader
		under    *bytes.Reader
		buffered []byte
		rest     int
	}
	var owned []*callerBuf
	same := &refillSrc{}
	var sharedDict []byte
	dictFor := func(r *gen.Recipe) []byte {
		d := recipeBytes(r)
		if !c.SharedDict || d == nil {
			return d
		}
		if sharedDict == nil {
			sharedDict = make([]byte, 4096)
		}
		if len(d) > len(sharedDict) {
			return d
		}
		copy(sharedDict, d)
		return sharedDict[:len(d)]
	}
	snapshot := func(cb *callerBuf) {
		b, _ := cb.br.Peek(cb.br.Buffered())
		cb.buffered = append([]byte(nil), b...)
		cb.rest = cb.under.Len()
	}
	for i, u := range c.Before {
		z, err := buildContainer(c.Pkg, u.In)
		if err != nil {
			return nil, false, err
		}
		var r io.Reader
		hadReader := used.fl != nil || used.gz != nil || used.zl != nil
		var cb *callerBuf
		if u.OwnBuf > 0 {
			// the caller's own buffered reader, with other data after the stream
			all := append(append([]byte(nil), z...), []byte("CALLER-DATA-AFTER-THE-STREAM-0123456789")...)
			cb = &callerBuf{under: bytes.NewReader(all)}
			cb.br = bufio.NewReaderSize(cb.under, u.OwnBuf)
			_, r = used.openSrc(cb.br, dictFor(u.In.RDict), !hadReader)
			owned = append(owned, cb)
			labels = append(labels, "before:caller-owned-bufio")
		} else if c.SameSrc {
			all := append([]byte(nil), z...)
			for k := 0; k < c.Suffix; k++ {
				all = append(all, byte(0xA5+k*7))
			}
			same.cur = bytes.NewReader(all)
			_, r = used.openSrc(same, dictFor(u.In.RDict), !hadReader)
			labels = append(labels, "before:same-source-object")
		} else {
			_, r = used.open(z, nil, dictFor(u.In.RDict), false)
		}
		if r == nil {
			labels = append(labels, "before:open-failed")
			if cb != nil {
				snapshot(cb)
			}
			continue
		}
		if u.Single && used.gz != nil {
			used.gz.Multistream(false)
			labels = append(labels, "before:multistream-false")
		}
		switch u.Plan {
		case "partial":
			buf := make([]byte, u.K)
			n, e := io.ReadFull(r, buf)
			if e == nil && n == u.K {
				labels = append(labels, "before:stopped-mid-stream")
				leftover = true
			} else {
				labels = append(labels, "before:ended:"+errKind(e))
				if e != io.EOF && e != io.ErrUnexpectedEOF {
					leftover = true
				}
			}
		case "full":
			_, e := io.Copy(io.Discard, r)
			labels = append(labels, "before:drained:"+errKind(e))
			if e != nil {
				leftover = true
			}
		default:
			labels = append(labels, "before:no-reads")
		}
		_ = i
		if u.Close {
			if cl, ok := r.(io.Closer); ok {
				cl.Close()
				labels = append(labels, "before:closed-by-caller")
			}
		}
		if cb != nil {
			snapshot(cb)
		}
	}
	z, err := buildContainer(c.Pkg, c.Next)
	if err != nil {
		return nil, false, err
	}
	rd := recipeBytes(c.Next.RDict)
	// fresh reader first (the model)
	fresh := &pkgReader{pkg: c.Pkg, model: true}
	want, fr := fresh.open(z, c.Chunks, rd, true)
	if fr != nil {
		want.Out, want.Err, want.Kind = drain(fr, c.Reads)
	}
	// the used reader; if no earlier use managed to construct one, Reset is not possible: same as fresh
	var got transcript
	var ur io.Reader
	hasReader := used.fl != nil || used.gz != nil || used.zl != nil
	if c.SameSrc {
		same.cur = makeSource(z, c.Chunks, false)
		got, ur = used.openSrc(same, dictFor(c.Next.RDict), !hasReader)
	} else {
		got, ur = used.open(z, c.Chunks, dictFor(c.Next.RDict), !hasReader)
	}
	if ur != nil {
		got.Out, got.Err, got.Kind = drain(ur, c.Reads)
	}
	d := got.diff(want)
	if c.Pkg == "flate" && len(rd) > 0 {
		d = got.looseDiff(want)
		labels = append(labels, "flate-reset-with-dictionary")
	}
	if d != "" {
		return nil, false, fmt.Errorf("%s Reader after Reset: %s", c.Pkg, d)
	}
	// a caller-owned bufio.Reader used earlier must be exactly as the Reader left it
	for k, cb := range owned {
		now, _ := cb.br.Peek(cb.br.Buffered())
		if !bytes.Equal(now, cb.buffered) || cb.under.Len() != cb.rest {
			return nil, false, fmt.Errorf("%s Reader: after Reset onto another source, the caller's *bufio.Reader used for earlier stream %d was touched again: it held %d buffered + %d unread bytes when the Reader left it, now %d + %d", c.Pkg, k+1, len(cb.buffered), cb.rest, len(now), cb.under.Len())
		}
	}
	labels = append(labels, "pkg:"+c.Pkg, "next:"+firstWord(want.Err))
	if c.Next.Stream.Kind == "synth" && c.Next.Stream.Synth.Fault != nil && c.Next.Stream.Synth.Fault.Kind == synth.FDistTooFar {
		labels = append(labels, "next:reaches-before-start")
	}
	if c.Pkg == "zlib" && (c.Next.Dict != nil || c.Next.RDict != nil) {
		labels = append(labels, "zlib-dictionary-involved")
	}
	if c.SharedDict {
		labels = append(labels, "zlib-dictionary-buffer-rewritten-in-place")
	}
	if c.SameSrc {
		labels = append(labels, "same-source-object-refilled")
	}
	return labels, hasReader && leftover && len(z) > 0, nil
}

func firstWord(s string) string {
	for i, r := range s {
		if r == ' ' || r == ':' {
			return s[:i]
		}
	}
	return s
}

func TestC13(t *testing.T) {
	rapid.Check(t, func(t *rapid.T) {
		c := drawC13(t)
		done := begin("C13", c)
		defer done()
		labels, nt, err := checkC13(c)
		if err != nil {
			saveLast("C13", c, err)
			t.Fatalf("C13 violated: %v", err)
		}
		stats.Record("C13", stats.Digest(c), nt, labels, func() any { return c })
	})
}

func init() {
	replayers["C13"] = func(raw json.RawMessage) error {
		var c C13Case
		if err := json.Unmarshal(raw, &c); err != nil {
			return err
		}
		_, _, err := checkC13(c)
		return err
	}
}
