package props

import (
	"encoding/json"
	"fmt"
	"hash/fnv"
	"runtime"
	"sync"
	"testing"

	"pgregory.net/rapid"

	"verifharness/gen"
	"verifharness/stats"
)

// C17: separate Writers and Readers do not interfere when used concurrently.

// Job is one independent workload on its own Writer / Reader value(s).
type Job struct {
	Kind string    `json:"kind"` // write | read | c13 | c12
	W    *C18WCase `json:"w,omitempty"`
	R    *C03Case  `json:"r,omitempty"`
	C13  *C13Case  `json:"c13,omitempty"`
	C12  *C12Case  `json:"c12,omitempty"`
	C06  *C06Case  `json:"c06,omitempty"`
}

type C17Case struct {
	Jobs   []Job `json:"jobs"`
	Procs  int   `json:"procs"`
	Rounds int   `json:"rounds"`
}

// run executes the job and returns a digest of everything it observed (bytes and errors).
func (j Job) run() (digest string, err error) {
	defer guardPanic(&err)
	h := fnv.New64a()
	switch j.Kind {
	case "write":
		// digest includes the compressed bytes: the same Writer run twice must emit identical bytes
		c := *j.W
		s, e := c18wResult(c)
		if e != nil {
			return "", e
		}
		z, e2 := emit(c.Set, c.Data.Bytes(), c.Ops[:len(c.Ops)-1])
		if c.FailAt == 0 && e2 != nil {
			return "", e2
		}
		h.Write([]byte(s))
		h.Write(z)
	case "read":
		c := *j.R
		z, _, _, e := c.Input.Build()
		if e != nil {
			return "", e
		}
		var r = makeSource(z, c.Chunks, c.EOFWith)
		rd, e := openReader("plain", 0, r)
		if e != nil {
			return "", e
		}
		out, rerr := readAllChunks(rd, c.Reads, 0)
		if _, _, e := judgeMalformed(z, outcome{out, rerr}, c.Prefix); e != nil {
			return "", e
		}
		h.Write(out)
		h.Write([]byte(errStr(rerr)))
	case "c13":
		labels, _, e := checkC13(*j.C13)
		if e != nil {
			return "", e
		}
		h.Write([]byte(fmt.Sprint(labels)))
	case "c06":
		labels, _, e := checkC06(*j.C06)
		if e != nil {
			return "", e
		}
		h.Write([]byte(fmt.Sprint(labels)))
	case "c12":
		labels, _, e := checkC12(*j.C12)
		if e != nil {
			return "", e
		}
		h.Write([]byte(fmt.Sprint(labels)))
	}
	return fmt.Sprintf("%016x", h.Sum64()), nil
}

func drawJob(t *rapid.T) Job {
	switch rapid.IntRange(0, 12).Draw(t, "jobkind") {
	case 10, 11, 12:
		// container round trips with non-ASCII Latin-1 header strings and zlib dictionaries
		c := drawC06(t)
		if c.M.Data.Len() > 20<<10 {
			c.M.Data = genText(2000, 7)
			c.M.Ops = nil
		}
		if c.Pkg == "gzip" {
			c.M.Hdr = &GzHdr{Name: "näme-" + rapid.StringMatching(`[¡-ÿ]{1,6}`).Draw(t, "lname"), Comment: rapid.StringMatching(`[¡-ÿ]{0,6}`).Draw(t, "lcomment")}
		} else if c.M.Dict == nil || rapid.Bool().Draw(t, "newdict") {
			d := gen.Recipe{Segs: []gen.Seg{{Kind: "text", N: rapid.IntRange(1, 300).Draw(t, "dlen"), Seed: rapid.Uint64Range(0, 50).Draw(t, "dseed")}}}
			c.M.Dict = &d
			if c.Reuse != nil {
				c.Reuse.Dict = &d
			}
		}
		if c.Pkg == "zlib" && c.M.Dict != nil && stdZlibDictBroken(c.M.Level, recipeBytes(c.M.Dict), c.M.Data.Bytes(), c.M.Ops) {
			c.M.Dict = nil
			if c.Reuse != nil {
				c.Reuse.Dict = nil
			}
		}
		return Job{Kind: "c06", C06: &c}
	case 0, 1, 2:
		w := drawC18W(t)
		if w.Data.Len() > 60<<10 {
			w.Data.Segs = w.Data.Segs[:1]
			if w.Data.Segs[0].N > 60<<10 {
				w.Data.Segs[0].N = 60 << 10
			}
			w.Ops = nil
			w.Ops = append(w.Ops, opsOneWriteFlushMid(w.Data.Len())...)
			w.Ops = append(w.Ops, gen.Op{K: "C"})
		}
		return Job{Kind: "write", W: &w}
	case 3, 4, 5, 6:
		var c C03Case
		if rapid.Bool().Draw(t, "fixedheavy") {
			// many readers over fixed-Huffman and dynamic streams at once: the package-level tables are shared
			s := drawSynth(t)
			for i := range s.Blocks {
				if rapid.Bool().Draw(t, "mkfixed") && s.Blocks[i].Type == 2 {
					s.Blocks[i].Type = 1
				}
			}
			c.Input = StreamSpec{Kind: "synth", Synth: s}
		} else {
			c.Input, c.Prefix = drawMalformed(t)
		}
		c.Reads = drawReadSizes(t)
		c.Chunks, c.EOFWith = drawChunks(t)
		return Job{Kind: "read", R: &c}
	case 7, 8:
		c := drawC13(t)
		return Job{Kind: "c13", C13: &c}
	default:
		c := drawC12(t)
		return Job{Kind: "c12", C12: &c}
	}
}

// drawContainerJob draws a small container round trip of one family: gzip members with non-ASCII
// Latin-1 header strings, or zlib streams with a preset dictionary (a different one per job).
func drawContainerJob(t *rapid.T, pkg string, i int) Job {
	c := C06Case{Pkg: pkg, Dir: rapid.SampledFrom([]string{"f2s", "f2f", "s2f"}).Draw(t, "dir"), Reads: []int{4096}}
	c.M = Member{Enc: "fast", Level: rapid.SampledFrom([]int{-2, -1, 1, 2, 6}).Draw(t, "level"), Data: genText(rapid.IntRange(1, 3000).Draw(t, "n"), uint64(i))}
	if c.Dir == "s2f" {
		c.M.Enc = "std"
	}
	if pkg == "gzip" {
		c.M.Hdr = &GzHdr{Name: rapid.StringMatching(`[¡-ÿ]{1,40}`).Draw(t, "lname"), Comment: rapid.StringMatching(`[¡-ÿ]{0,40}`).Draw(t, "lcomment")}
	} else {
		d := gen.Recipe{Segs: []gen.Seg{{Kind: "text", N: 20 + 13*i, Seed: uint64(100 + i)}}}
		c.M.Dict = &d
		if stdZlibDictBroken(c.M.Level, recipeBytes(c.M.Dict), c.M.Data.Bytes(), c.M.Ops) {
			c.M.Dict = nil
		}
	}
	return Job{Kind: "c06", C06: &c}
}

func drawC17(t *rapid.T) C17Case {
	var c C17Case
	n := rapid.IntRange(2, 12).Draw(t, "njobs")
	theme := rapid.IntRange(0, 6).Draw(t, "theme")
	for i := 0; i < n; i++ {
		switch theme {
		case 1:
			c.Jobs = append(c.Jobs, drawContainerJob(t, "gzip", i))
		case 2:
			c.Jobs = append(c.Jobs, drawContainerJob(t, "zlib", i))
		case 3:
			// every job a Writer over data whose optimal code is deeper than the limit (frequency ladders,
			// exact Fibonacci counts, short periods): all of them run the length-limiting pass at once
			var seg gen.Seg
			switch rapid.IntRange(0, 2).Draw(t, "deepkind") {
			case 0:
				k := rapid.IntRange(17, 22).Draw(t, "fibk")
				fa, fb, sum := 1, 2, 0
				for q := 0; q < k; q++ {
					sum += fa
					fa, fb = fb, fa+fb
				}
				seg = gen.Seg{Kind: "fib", N: sum, A: k, B: 1, Seed: uint64(i)}
			case 1:
				seg = gen.Seg{Kind: "ladder", N: rapid.IntRange(3000, 60000).Draw(t, "n"), A: rapid.SampledFrom([]int{15, 17, 20}).Draw(t, "ratio"), Seed: uint64(i)}
			default:
				seg = gen.Seg{Kind: "period", N: rapid.IntRange(300, 20000).Draw(t, "n"), A: rapid.IntRange(1, 40).Draw(t, "period"), Seed: uint64(i)}
			}
			w := C18WCase{Set: PSetting{Pkg: "flate", WSetting: WSetting{Ctor: rapid.SampledFrom([]string{"new", "4k"}).Draw(t, "ctor"), Level: rapid.SampledFrom([]int{-2, -2, -2, -1, 1, 2}).Draw(t, "level")}}, Data: gen.Recipe{Segs: []gen.Seg{seg}}}
			w.Ops = []gen.Op{{K: "W", N: w.Data.Len()}, {K: "C"}}
			c.Jobs = append(c.Jobs, Job{Kind: "write", W: &w})
		default:
			c.Jobs = append(c.Jobs, drawJob(t))
		}
	}
	if theme == 1 || theme == 2 || theme == 3 {
		// one family only: the jobs are small, so run more rounds to get real overlap on whatever they share
		c.Rounds = 12
	}
	c.Procs = rapid.SampledFrom([]int{1, 2, 4, 16}).Draw(t, "procs")
	if c.Rounds == 0 {
		c.Rounds = 3
	}
	return c
}

func checkC17(c C17Case) (labels []string, nontrivial bool, execs int, err error) {
	// solo digests first
	solo := make([]string, len(c.Jobs))
	for i, j := range c.Jobs {
		d, e := j.run()
		if e != nil {
			// the job's own property failing is that property's business; C17 needs a stable baseline
			var oe *oracleError
			_ = oe
			return nil, false, 0, fmt.Errorf("job %d (%s) fails when run alone: %v", i, j.Kind, e)
		}
		solo[i] = d
	}
	old := runtime.GOMAXPROCS(c.Procs)
	defer runtime.GOMAXPROCS(old)
	kinds := map[string]bool{}
	for _, j := range c.Jobs {
		kinds[j.Kind] = true
	}
	for round := 0; round < c.Rounds; round++ {
		got := make([]string, len(c.Jobs))
		errs := make([]error, len(c.Jobs))
		var wg sync.WaitGroup
		start := make(chan struct{})
		for i := range c.Jobs {
			wg.Add(1)
			go func(i int) {
				defer wg.Done()
				<-start
				got[i], errs[i] = c.Jobs[i].run()
			}(i)
		}
		close(start)
		wg.Wait()
		execs += len(c.Jobs)
		for i := range c.Jobs {
			if errs[i] != nil {
				return nil, false, execs, fmt.Errorf("job %d (%s) fails only when run concurrently with %d others (GOMAXPROCS %d, round %d): %v", i, c.Jobs[i].Kind, len(c.Jobs)-1, c.Procs, round, errs[i])
			}
			if got[i] != solo[i] {
				return nil, false, execs, fmt.Errorf("job %d (%s) produced digest %s alone but %s when run concurrently with %d others (GOMAXPROCS %d, round %d)", i, c.Jobs[i].Kind, solo[i], got[i], len(c.Jobs)-1, c.Procs, round)
			}
		}
	}
	labels = append(labels, fmt.Sprintf("procs:%d", c.Procs), fmt.Sprintf("jobs:%d", len(c.Jobs)))
	for k := range kinds {
		labels = append(labels, "has:"+k)
	}
	return labels, len(c.Jobs) >= 2 && (len(kinds) >= 2 || c.Rounds > 3), execs, nil
}

func TestC17(t *testing.T) {
	rapid.Check(t, func(t *rapid.T) {
		c := drawC17(t)
		done := begin("C17", c)
		defer done()
		labels, nt, execs, err := checkC17(c)
		if err != nil {
			saveLast("C17", c, err)
			t.Fatalf("C17 violated: %v", err)
		}
		stats.ExtraAdd("C17", "sum_concurrent_job_executions", float64(execs))
		stats.Record("C17", stats.Digest(c), nt, labels, func() any { return map[string]any{"jobs": len(c.Jobs), "procs": c.Procs, "first_job": c.Jobs[0]} })
	})
}

func init() {
	replayers["C17"] = func(raw json.RawMessage) error {
		var c C17Case
		if err := json.Unmarshal(raw, &c); err != nil {
			return err
		}
		if c.Rounds < 20 {
			c.Rounds = 20
		}
		_, _, _, err := checkC17(c)
		return err
	}
}
