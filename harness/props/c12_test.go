package props

import (
	"bytes"
	"encoding/json"
	"errors"
	"fmt"
	"testing"

	fgzip "github.com/intel/fastgo/compress/gzip"

	"pgregory.net/rapid"

	"verifharness/gen"
	"verifharness/iox"
	"verifharness/stats"
)

// C12: Writer.Reset makes a used Writer indistinguishable from a new one.

type History struct {
	Data   gen.Recipe `json:"data"`
	Ops    []gen.Op   `json:"ops"`               // W/F, optionally a final C
	FailAt int        `json:"fail_at,omitempty"` // destination fails at its k-th call (0 = never)
	Short  int        `json:"short,omitempty"`
	Hdr    *GzHdr     `json:"hdr,omitempty"` // gzip: header fields assigned before the first call
}

type C12Case struct {
	Set    PSetting  `json:"set"`
	Before []History `json:"before"` // one or more earlier uses, each followed by Reset
	After  History   `json:"after"`
	// ScrubDict: the caller overwrites its dictionary buffer once the earlier stream has been closed
	// (the constructors only ask that it stay unmodified "until the Writer is closed")
	ScrubDict bool `json:"scrub_dict,omitempty"`
}

var errInjected = errors.New("injected destination failure")

// drawHistory draws a W/F sequence with sizes chosen to leave pending state.
func drawHistory(t *rapid.T, set PSetting, label string, allowFail bool) History {
	var h History
	w := set.window()
	full := 2*w + 258
	if set.Level == -2 {
		full = 65536
	}
	nops := rapid.IntRange(0, 6).Draw(t, label+"_nops")
	total := 0
	for i := 0; i < nops; i++ {
		switch rapid.IntRange(0, 9).Draw(t, label+"_op") {
		case 0, 1:
			h.Ops = append(h.Ops, gen.Op{K: "F"})
		case 2:
			h.Ops = append(h.Ops, gen.Op{K: "W", N: 0})
		case 3, 4:
			n := full + rapid.IntRange(-3, 300).Draw(t, label+"_big")
			h.Ops = append(h.Ops, gen.Op{K: "W", N: n})
			total += n
		case 5:
			n := rapid.IntRange(1, 3*full).Draw(t, label+"_any")
			h.Ops = append(h.Ops, gen.Op{K: "W", N: n})
			total += n
		default:
			n := rapid.IntRange(1, 600).Draw(t, label+"_small")
			h.Ops = append(h.Ops, gen.Op{K: "W", N: n})
			total += n
		}
	}
	if rapid.IntRange(0, 7).Draw(t, label+"_exact") == 0 {
		// Flush exactly at a multiple of 64 KiB (16-bit position wrap), then a little more, left unflushed
		k := rapid.IntRange(1, 3).Draw(t, label+"_k")
		pre := total % 65536
		first := k*65536 - pre
		h.Ops = append(h.Ops, gen.Op{K: "W", N: first}, gen.Op{K: "F"})
		small := rapid.IntRange(1, 40).Draw(t, label+"_tail")
		h.Ops = append(h.Ops, gen.Op{K: "W", N: small})
		total += first + small
	}
	if rapid.IntRange(0, 2).Draw(t, label+"_close") == 0 {
		h.Ops = append(h.Ops, gen.Op{K: "C"})
	}
	h.Data = gen.DrawRecipeN(t, total)
	if allowFail && rapid.IntRange(0, 3).Draw(t, label+"_fail") == 0 {
		h.FailAt = rapid.IntRange(1, 12).Draw(t, label+"_failat")
		h.Short = rapid.SampledFrom([]int{0, 0, 1, 100}).Draw(t, label+"_short")
	}
	if set.Pkg == "gzip" && rapid.IntRange(0, 2).Draw(t, label+"_hdr") == 0 {
		h.Hdr = &GzHdr{Name: rapid.StringMatching(`[a-z]{0,8}`).Draw(t, label+"_name"), Comment: rapid.StringMatching(`[a-z ]{0,8}`).Draw(t, label+"_comment"),
			MTime: int64(rapid.IntRange(0, 2000000000).Draw(t, label+"_mtime"))}
		if rapid.Bool().Draw(t, label+"_x") {
			h.Hdr.HasX = true
			h.Hdr.Extra = []byte(rapid.StringMatching(`[a-z]{0,5}`).Draw(t, label+"_extra"))
		}
		h.Hdr.OS = byte(rapid.IntRange(0, 255).Draw(t, label+"_os"))
	}
	if allowFail && set.Pkg == "gzip" && rapid.IntRange(0, 19).Draw(t, label+"_badhdr") == 0 {
		// "a failed write" of another kind: the header cannot be written (non-Latin-1 name): the Writer
		// has emitted the first 10 header bytes and has no compressor yet when it is Reset
		h.Hdr = &GzHdr{Name: "n\u0100me"}
	}
	return h
}

func setHdr(w anyWriter, h *GzHdr) {
	if gz, ok := w.(*fgzip.Writer); ok && h != nil {
		applyHdr(h, &gz.Name, &gz.Comment, &gz.Extra, &gz.ModTime, &gz.OS)
	}
}

func drawC12(t *rapid.T) C12Case {
	var c C12Case
	c.Set = drawPSetting(t, false, true)
	c.Set.Hdr = nil
	nb := rapid.SampledFrom([]int{1, 1, 1, 2}).Draw(t, "nbefore")
	for i := 0; i < nb; i++ {
		c.Before = append(c.Before, drawHistory(t, c.Set, fmt.Sprintf("h%d", i), true))
	}
	c.After = drawHistory(t, c.Set, "after", false)
	if c.Set.Ctor == "dict" && c.Set.Dict != nil {
		c.ScrubDict = rapid.Bool().Draw(t, "scrubdict")
		if c.ScrubDict && rapid.Bool().Draw(t, "scrubclose") {
			last := &c.Before[len(c.Before)-1]
			if n := len(last.Ops); n == 0 || last.Ops[n-1].K != "C" {
				last.Ops = append(last.Ops, gen.Op{K: "C"})
			}
		}
	}
	if rapid.IntRange(0, 7).Draw(t, "replay") == 0 && len(c.Before) > 0 && c.Before[len(c.Before)-1].Data.Len() > 0 {
		// "replay": the later stream is the earlier data again (a prefix of it), written in small pieces
		// with Flushes: whatever the Writer's buffers still hold beyond the new end of data is the true
		// continuation of the new data - an over-read past the end would find plausible bytes
		last := c.Before[len(c.Before)-1]
		n := rapid.IntRange(1, last.Data.Len()).Draw(t, "replay_n")
		if n > 20000 {
			n = 20000
		}
		data := gen.Recipe{Segs: []gen.Seg{{Kind: "raw", N: n, Raw: last.Data.Bytes()[:n]}}}
		var ops []gen.Op
		for rem := n; rem > 0; {
			k := rapid.IntRange(1, 300).Draw(t, "replay_w")
			if k > rem {
				k = rem
			}
			ops = append(ops, gen.Op{K: "W", N: k})
			rem -= k
			if rapid.IntRange(0, 3).Draw(t, "replay_f") == 0 {
				ops = append(ops, gen.Op{K: "F"})
			}
			if len(ops) > 120 {
				ops = append(ops, gen.Op{K: "W", N: rem})
				rem = 0
			}
		}
		ops = append(ops, gen.Op{K: "C"})
		c.After = History{Data: data, Ops: ops}
	}
	if rapid.IntRange(0, 5).Draw(t, "echo") == 0 {
		// "echo" mode: a tiny earlier stream (every piece shorter than 16 bytes) and a later stream that
		// starts with the same bytes and repeats them: anything the match finder remembered from the
		// earlier stream (hash-table entries written by the scalar tail) changes the later stream's matches
		raw := rapid.SliceOfN(rapid.ByteRange('a', 'z'), 5, 15).Draw(t, "echo_bytes")
		h1 := History{Data: gen.Recipe{Segs: []gen.Seg{{Kind: "raw", N: len(raw), Raw: raw}}}, Ops: []gen.Op{{K: "W", N: len(raw)}}}
		if rapid.Bool().Draw(t, "echo_close") {
			h1.Ops = append(h1.Ops, gen.Op{K: "C"})
		}
		c.Before = []History{h1}
		// later data: the same bytes, then the same bytes again with the first one changed, then a little more
		var d2 []byte
		d2 = append(d2, raw...)
		for i := 0; i < rapid.IntRange(1, 3).Draw(t, "echo_reps"); i++ {
			d2 = append(d2, byte('A'+i))
			d2 = append(d2, raw[1:]...)
		}
		d2 = append(d2, []byte("!\n")...)
		segs := []gen.Seg{{Kind: "raw", N: len(d2), Raw: d2}}
		total := len(d2)
		c.After = History{Data: gen.Recipe{Segs: segs}, Ops: []gen.Op{{K: "W", N: total}, {K: "C"}}}
	}
	return c
}

func sameTranscript(a, b []OpResult) error {
	if len(a) != len(b) {
		return fmt.Errorf("transcripts have %d vs %d calls", len(a), len(b))
	}
	for i := range a {
		x, y := a[i], b[i]
		if x.Panic != "" || y.Panic != "" {
			if x.Panic != y.Panic {
				return fmt.Errorf("call %d (%s): panic %q vs %q", i, x.K, x.Panic, y.Panic)
			}
			continue
		}
		if errStr(x.Err) != errStr(y.Err) || x.RetN != y.RetN {
			return fmt.Errorf("call %d (%s %d): returned (%d, %v), a new Writer returns (%d, %v)", i, x.K, x.N, x.RetN, x.Err, y.RetN, y.Err)
		}
		if !bytes.Equal(x.Out, y.Out) {
			return fmt.Errorf("call %d (%s %d): emitted %d bytes, a new Writer emits %d; first difference at byte %d of this call (%s vs %s)", i, x.K, x.N, len(x.Out), len(y.Out), firstDiff(x.Out, y.Out), hexPrefix(x.Out, 16), hexPrefix(y.Out, 16))
		}
	}
	return nil
}

func checkC12(c C12Case) (labels []string, nontrivial bool, err error) {
	defer guardPanic(&err)
	// the used Writer
	var used anyWriter
	wrote1 := 0
	callerDict := c.Set.dictBytes()
	lastClosed := false
	for i, h := range c.Before {
		sink := &iox.Sink{FailAt: h.FailAt, Short: h.Short, FailErr: errInjected, Sticky: true}
		if i == 0 {
			used, err = newAnyWriterDict(sink, c.Set, callerDict)
			if err != nil {
				return nil, false, err
			}
		} else {
			used.Reset(sink)
		}
		setHdr(used, h.Hdr)
		res, _ := runOps(used, sink, h.Data.Bytes(), h.Ops, nil)
		closed, failed, pendingBig, flushed := false, false, false, false
		for _, r := range res {
			if r.Panic != "" {
				return nil, false, fmt.Errorf("earlier history %d: call %s panicked: %s", i, r.K, r.Panic)
			}
			if r.Err != nil {
				failed = true
			}
			if r.K == "C" && r.Err == nil {
				closed = true
			}
			if r.K == "F" {
				flushed = true
			}
			if r.K == "W" && r.N >= 8450 {
				pendingBig = true
			}
			if r.K == "W" {
				wrote1 += r.N
			}
		}
		lastClosed = closed && !failed
		if failed {
			labels = append(labels, "before:ended-in-error")
		}
		if closed {
			labels = append(labels, "before:closed")
		} else {
			labels = append(labels, "before:abandoned")
		}
		if pendingBig && !closed {
			labels = append(labels, "before:abandoned-with-compressed-but-unemitted-data")
		}
		if flushed && !closed {
			labels = append(labels, "before:flushed-then-abandoned")
		}
	}
	if c.ScrubDict && lastClosed && len(callerDict) > 0 {
		for i := range callerDict {
			callerDict[i] = 0xEE
		}
		labels = append(labels, "dictionary-buffer-overwritten-after-close")
	}
	h2 := c.After
	data2 := h2.Data.Bytes()
	s2 := &iox.Sink{}
	used.Reset(s2)
	setHdr(used, h2.Hdr)
	got, _ := runOps(used, s2, data2, h2.Ops, nil)
	// a new Writer
	s3 := &iox.Sink{}
	fresh, err := newAnyWriter(s3, c.Set)
	if err != nil {
		return nil, false, err
	}
	setHdr(fresh, h2.Hdr)
	want, _ := runOps(fresh, s3, data2, h2.Ops, nil)
	if e := sameTranscript(got, want); e != nil {
		return nil, false, fmt.Errorf("after Reset: %v", e)
	}
	closedOK := len(got) > 0 && got[len(got)-1].K == "C" && got[len(got)-1].Err == nil
	if closedOK && !(c.Set.Ctor == "dict" && knownActive("std-dict-stored-first-block") && stdDictRoundTripBroken(c.Set.Level, c.Set.dictBytes(), data2, h2.Ops[:len(h2.Ops)-1])) {
		if e := checkCompleteContainer(c.Set.Pkg, s2.Bytes(), data2, c.Set.dictBytes()); e != nil {
			return nil, false, fmt.Errorf("stream written after Reset: %v", e)
		}
	}
	labels = append(labels, "setting:"+c.Set.String())
	if c.Set.delegatedP() {
		labels = append(labels, "delegated")
	}
	return labels, wrote1 >= 1 && len(data2) >= 1 && !c.Set.delegatedP(), nil
}

func TestC12(t *testing.T) {
	rapid.Check(t, func(t *rapid.T) {
		c := drawC12(t)
		done := begin("C12", c)
		defer done()
		labels, nt, err := checkC12(c)
		if err != nil {
			saveLast("C12", c, err)
			t.Fatalf("C12 violated: %v", err)
		}
		stats.Record("C12", stats.Digest(c), nt, labels, func() any { return c })
	})
}

func init() {
	replayers["C12"] = func(raw json.RawMessage) error {
		var c C12Case
		if err := json.Unmarshal(raw, &c); err != nil {
			return err
		}
		_, _, err := checkC12(c)
		return err
	}
}
