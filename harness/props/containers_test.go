package props

import (
	"bytes"
	"hash/adler32"
	"hash/crc32"

	"verifharness/refinflate"
)

// latin1 converts a UTF-8 string of Latin-1 text to its Latin-1 bytes.
func latin1(s string) []byte {
	var b []byte
	for _, r := range s {
		b = append(b, byte(r))
	}
	return b
}

// payloadOf returns what body decodes to (by construction if known, otherwise by
// the reference inflater).
func payloadOf(body, expected []byte, known bool) []byte {
	if known {
		return expected
	}
	return refinflate.Inflate(body, refinflate.Options{}).Out
}

// gzipWrap builds a gzip member around a DEFLATE body, by the letter of RFC 1952.
func gzipWrap(body, expected []byte, known bool, h *GzHdr) []byte {
	var b bytes.Buffer
	flg := byte(0)
	if h.HasX {
		flg |= 4
	}
	if h.Name != "" {
		flg |= 8
	}
	if h.Comment != "" {
		flg |= 16
	}
	mt := uint32(h.MTime)
	b.Write([]byte{0x1f, 0x8b, 8, flg, byte(mt), byte(mt >> 8), byte(mt >> 16), byte(mt >> 24), 0, h.OS})
	if h.HasX {
		b.Write([]byte{byte(len(h.Extra)), byte(len(h.Extra) >> 8)})
		b.Write(h.Extra)
	}
	if h.Name != "" {
		b.Write(latin1(h.Name))
		b.WriteByte(0)
	}
	if h.Comment != "" {
		b.Write(latin1(h.Comment))
		b.WriteByte(0)
	}
	b.Write(body)
	p := payloadOf(body, expected, known)
	c := crc32.ChecksumIEEE(p)
	n := uint32(len(p))
	b.Write([]byte{byte(c), byte(c >> 8), byte(c >> 16), byte(c >> 24), byte(n), byte(n >> 8), byte(n >> 16), byte(n >> 24)})
	return b.Bytes()
}

// zlibWrap builds a zlib stream (no dictionary) around a DEFLATE body.
func zlibWrap(body, expected []byte, known bool) []byte {
	var b bytes.Buffer
	b.Write([]byte{0x78, 0x9c})
	b.Write(body)
	a := adler32.Checksum(payloadOf(body, expected, known))
	b.Write([]byte{byte(a >> 24), byte(a >> 16), byte(a >> 8), byte(a)})
	return b.Bytes()
}
