package props

import (
	stdgzip "compress/gzip"
	"fmt"
	"hash/crc32"
	"io"
	"testing"

	fflate "github.com/intel/fastgo/compress/flate"
	fgzip "github.com/intel/fastgo/compress/gzip"

	"verifharness/stats"
)

// Streams longer than 4 GiB: the gzip length field wraps (C06: "length mod 2^32"), and every
// counter in the compressors and the Reader passes 2^32 (C01). Data is produced and checked on
// the fly (nothing is held in memory): a 4093-byte pseudo-random block repeated, with the
// absolute position mixed in every 1 MiB so that the stream is not purely periodic.

type patternGen struct {
	block []byte
	pos   int64
}

func newPatternGen() *patternGen {
	g := &patternGen{block: make([]byte, 4093)}
	x := uint64(0x9E3779B97F4A7C15)
	for i := range g.block {
		x ^= x << 13
		x ^= x >> 7
		x ^= x << 17
		g.block[i] = byte(x >> 24)
	}
	return g
}

func (g *patternGen) fill(p []byte) {
	// bulk copy of the repeating block ...
	off := int(g.pos % 4093)
	for i := 0; i < len(p); {
		n := copy(p[i:], g.block[off:])
		i += n
		off = 0
	}
	// ... then the absolute position, little-endian, in the first 8 bytes of every MiB
	first := (g.pos + (1 << 20) - 1) &^ (1<<20 - 1)
	if g.pos%(1<<20) < 8 {
		first = g.pos &^ (1<<20 - 1)
	}
	for m := first; m < g.pos+int64(len(p)); m += 1 << 20 {
		for k := int64(0); k < 8; k++ {
			if pos := m + k; pos >= g.pos && pos < g.pos+int64(len(p)) {
				p[pos-g.pos] = byte(pos >> (8 * uint(k)))
			}
		}
	}
	g.pos += int64(len(p))
}

type tailSink struct {
	w    io.Writer
	n    int64
	tail []byte
}

func (s *tailSink) Write(p []byte) (int, error) {
	s.n += int64(len(p))
	s.tail = append(s.tail, p...)
	if len(s.tail) > 16 {
		s.tail = s.tail[len(s.tail)-16:]
	}
	return s.w.Write(p)
}

type bigCase struct {
	Pkg   string `json:"pkg"`
	Level int    `json:"level"`
	Total int64  `json:"total"`
	Rdr   string `json:"reader"`
}

func runBig(c bigCase) (err error) {
	defer guardPanic(&err)
	pr, pw := io.Pipe()
	sink := &tailSink{w: pw}
	werr := make(chan error, 1)
	crc := crc32.NewIEEE()
	go func() {
		var w anyWriter
		var e error
		if c.Pkg == "gzip" {
			w, e = fgzip.NewWriterLevel(sink, c.Level)
		} else {
			w, e = newFlateWriter(sink, WSetting{Ctor: "new", Level: c.Level})
		}
		if e != nil {
			pw.CloseWithError(e)
			werr <- e
			return
		}
		g := newPatternGen()
		buf := make([]byte, 1<<20)
		left := c.Total
		for left > 0 && e == nil {
			n := int64(len(buf))
			if n > left {
				n = left
			}
			g.fill(buf[:n])
			crc.Write(buf[:n])
			_, e = w.Write(buf[:n])
			left -= n
		}
		if e == nil {
			e = w.Close()
		}
		pw.CloseWithError(e)
		werr <- e
	}()
	var r io.Reader
	switch c.Pkg + "/" + c.Rdr {
	case "gzip/fast":
		r, err = fgzip.NewReader(pr)
	case "gzip/std":
		r, err = stdgzip.NewReader(pr)
	default:
		r = fflate.NewReader(pr)
	}
	if err != nil {
		return fmt.Errorf("opening the reader: %v", err)
	}
	g := newPatternGen()
	buf := make([]byte, 1<<20)
	want := make([]byte, 1<<20)
	var got int64
	for {
		n, e := io.ReadFull(r, buf)
		if n > 0 {
			g.fill(want[:n])
			if d := firstDiff(buf[:n], want[:n]); d >= 0 {
				return fmt.Errorf("%s level %d, %d bytes: decoded data differs at byte %d", c.Pkg, c.Level, c.Total, got+int64(d))
			}
			got += int64(n)
		}
		if e == io.EOF || e == io.ErrUnexpectedEOF {
			break
		}
		if e != nil {
			return fmt.Errorf("%s level %d, %d bytes: %s reader failed after %d bytes: %v", c.Pkg, c.Level, c.Total, c.Rdr, got, e)
		}
	}
	if e := <-werr; e != nil {
		return fmt.Errorf("writer: %v", e)
	}
	if got != c.Total {
		return fmt.Errorf("%s level %d: wrote %d bytes, read back %d", c.Pkg, c.Level, c.Total, got)
	}
	if c.Pkg == "gzip" {
		t := sink.tail
		t = t[len(t)-8:]
		gotCRC := uint32(t[0]) | uint32(t[1])<<8 | uint32(t[2])<<16 | uint32(t[3])<<24
		gotLen := uint32(t[4]) | uint32(t[5])<<8 | uint32(t[6])<<16 | uint32(t[7])<<24
		if gotCRC != crc.Sum32() || gotLen != uint32(c.Total) {
			return fmt.Errorf("gzip trailer crc=%08x len=%d; payload has crc=%08x and length mod 2^32 = %d", gotCRC, gotLen, crc.Sum32(), uint32(c.Total))
		}
	}
	return nil
}

// TestBig is registered under C06 (gzip cases) and C01 (flate cases) by the driver via VERIF_BIG.
func TestBig(t *testing.T) {
	which := envString("VERIF_BIG", "C06")
	var cases []bigCase
	if which == "C06" {
		cases = []bigCase{{Pkg: "gzip", Level: 1, Total: 4<<30 + 5, Rdr: "fast"}}
		if thorough() {
			cases = append(cases, bigCase{Pkg: "gzip", Level: 2, Total: 4<<30 - 1, Rdr: "std"}, bigCase{Pkg: "gzip", Level: -1, Total: 8<<30 + 1234567, Rdr: "fast"},
				bigCase{Pkg: "gzip", Level: -2, Total: 4<<30 + 70000, Rdr: "fast"})
		}
	} else {
		cases = []bigCase{{Pkg: "flate", Level: 2, Total: 4<<30 + 100001, Rdr: "fast"}}
		if thorough() {
			cases = append(cases, bigCase{Pkg: "flate", Level: 1, Total: 4<<30 + 65537, Rdr: "fast"}, bigCase{Pkg: "flate", Level: -2, Total: 4<<30 + 3, Rdr: "fast"})
		}
	}
	for _, c := range cases {
		done := begin(which, c)
		err := runBig(c)
		done()
		if err != nil {
			saveLast(which, c, err)
			t.Fatalf("%s violated (stream longer than 4 GiB): %v", which, err)
		}
		stats.Record(which, stats.Digest(c), true, []string{"stream>4GiB"}, func() any { return c })
	}
}
