package props

import (
	"bytes"
	stdgzip "compress/gzip"
	stdzlib "compress/zlib"
	"encoding/json"
	"fmt"
	"hash/adler32"
	"hash/crc32"
	"io"
	"testing"

	fgzip "github.com/intel/fastgo/compress/gzip"
	fzlib "github.com/intel/fastgo/compress/zlib"

	"pgregory.net/rapid"

	"verifharness/gen"
	"verifharness/iox"
	"verifharness/refinflate"
	"verifharness/stats"
)

// C06: gzip and zlib containers round-trip and interoperate with the standard library.

type C06Case struct {
	Pkg     string  `json:"pkg"` // gzip | zlib
	Dir     string  `json:"dir"` // f2s | s2f | f2f
	M       Member  `json:"member"`
	Reuse   *Member `json:"reuse,omitempty"`   // the Writer wrote this member first, then Reset
	Abandon bool    `json:"abandon,omitempty"` // ... without closing it (stream abandoned mid-way)
	Reads   []int   `json:"reads"`
	BufSrc  int     `json:"buf_src"` // 0: bytes.Reader source; >0: *bufio.Reader of this size
}

func drawC06(t *rapid.T) C06Case {
	var c C06Case
	c.Pkg = rapid.SampledFrom([]string{"gzip", "zlib"}).Draw(t, "pkg")
	c.Dir = rapid.SampledFrom([]string{"f2s", "s2f", "f2f"}).Draw(t, "dir")
	max := 100 << 10
	if thorough() {
		max = 400 << 10
	}
	c.M = drawMember(t, c.Pkg, max)
	if c.Dir == "s2f" {
		c.M.Enc = "std"
	} else {
		c.M.Enc = "fast"
	}
	if c.Pkg == "zlib" && rapid.IntRange(0, 2).Draw(t, "zdict") == 0 {
		d := gen.Recipe{Segs: []gen.Seg{gen.DrawSeg(t, rapid.IntRange(0, 3000).Draw(t, "dictlen"))}}
		c.M.Dict = &d
	}
	if rapid.IntRange(0, 2).Draw(t, "reuse") == 0 {
		r := drawMember(t, c.Pkg, 70<<10)
		r.Enc, r.Level, r.Dict = c.M.Enc, c.M.Level, c.M.Dict
		c.Reuse = &r
		c.Abandon = rapid.Bool().Draw(t, "abandon")
	}
	c.Reads = drawReadSizes(t)
	c.BufSrc = rapid.SampledFrom([]int{0, 0, 16, 64, 4096, 65536}).Draw(t, "bufsrc")
	return c
}

func stdZlibDictBroken(level int, dict, data []byte, ops []gen.Op) bool {
	if len(dict) == 0 {
		return false
	}
	var b bytes.Buffer
	w, err := stdzlib.NewWriterLevelDict(&b, level, dict)
	if err != nil {
		return false
	}
	if writeMemberOps(w, data, ops) != nil {
		return true
	}
	r, err := stdzlib.NewReaderDict(bytes.NewReader(b.Bytes()), dict)
	if err != nil {
		return true
	}
	out, err := io.ReadAll(r)
	return err != nil || !bytes.Equal(out, data)
}

func checkC06(c C06Case) (labels []string, nontrivial bool, err error) {
	defer guardPanic(&err)
	data := c.M.Data.Bytes()
	dict := recipeBytes(c.M.Dict)
	// ---- write
	sink := &iox.Sink{}
	var w anyWriter
	if c.Reuse != nil {
		first := &iox.Sink{}
		w, err = newContainerWriter(c.Pkg, c.M.Enc, first, c.M.Level, c.Reuse.Hdr, dict)
		if err != nil {
			return nil, false, err
		}
		if c.Abandon {
			if _, e := w.Write(c.Reuse.Data.Bytes()); e != nil {
				return nil, false, fmt.Errorf("first use of the Writer: %v", e)
			}
			if c.Reuse.Data.Len()%2 == 0 {
				w.Flush()
			}
		} else if e := writeMemberOps(w, c.Reuse.Data.Bytes(), c.Reuse.Ops); e != nil {
			return nil, false, fmt.Errorf("first use of the Writer: %v", e)
		}
		w.Reset(sink)
		if gz, ok := w.(*fgzip.Writer); ok {
			applyHdr(c.M.Hdr, &gz.Name, &gz.Comment, &gz.Extra, &gz.ModTime, &gz.OS)
		}
		if gz, ok := w.(*stdgzip.Writer); ok {
			applyHdr(c.M.Hdr, &gz.Name, &gz.Comment, &gz.Extra, &gz.ModTime, &gz.OS)
		}
	} else {
		w, err = newContainerWriter(c.Pkg, c.M.Enc, sink, c.M.Level, c.M.Hdr, dict)
		if err != nil {
			return nil, false, err
		}
	}
	if e := writeMemberOps(w, data, c.M.Ops); e != nil {
		return nil, false, fmt.Errorf("%s %s Writer: %v", c.M.Enc, c.Pkg, e)
	}
	z := sink.Bytes()
	// ---- the container by the letter of the RFC: payload, trailer, header bytes
	var hdrBytes []byte
	switch c.Pkg {
	case "gzip":
		g := refinflate.ParseGzip(z, true)
		if g.Verdict != refinflate.CValid || len(g.Members) != 1 || g.Members[0].End != len(z) {
			return nil, false, fmt.Errorf("reference gzip parser on the %s Writer's output: %v (%s), %d members", c.M.Enc, g.Verdict, g.Reason, len(g.Members))
		}
		m := g.Members[0]
		if !bytes.Equal(m.Payload, data) {
			return nil, false, fmt.Errorf("container payload differs from the data written at byte %d", firstDiff(m.Payload, data))
		}
		if m.CRC != crc32.ChecksumIEEE(data) || m.ISize != uint32(len(data)) {
			return nil, false, fmt.Errorf("gzip trailer is crc=%08x len=%d, the payload written has crc=%08x len=%d", m.CRC, m.ISize, crc32.ChecksumIEEE(data), uint32(len(data)))
		}
		hdrBytes = z[:m.BodyStart]
	default:
		zr := refinflate.ParseZlib(z, dict)
		if zr.Verdict != refinflate.CValid || zr.End != len(z) {
			return nil, false, fmt.Errorf("reference zlib parser on the %s Writer's output: %v (%s)", c.M.Enc, zr.Verdict, zr.Reason)
		}
		if !bytes.Equal(zr.Payload, data) {
			return nil, false, fmt.Errorf("container payload differs from the data written at byte %d", firstDiff(zr.Payload, data))
		}
		if zr.Adler != adler32.Checksum(data) {
			return nil, false, fmt.Errorf("zlib trailer is %08x, the payload written has Adler-32 %08x", zr.Adler, adler32.Checksum(data))
		}
		hdrBytes = z[:zr.BodyStart]
	}
	if c.M.Enc == "fast" {
		// header bytes are determined by the format: same as the standard library's Writer's
		var sb bytes.Buffer
		sw, e := newContainerWriter(c.Pkg, "std", &sb, c.M.Level, c.M.Hdr, dict)
		if e != nil {
			return nil, false, e
		}
		sw.Close()
		if !bytes.HasPrefix(sb.Bytes(), hdrBytes) {
			return nil, false, fmt.Errorf("%s header bytes %s differ from the standard library's %s", c.Pkg, hexPrefix(hdrBytes, 24), hexPrefix(sb.Bytes(), 24))
		}
	}
	// ---- read back on the other side
	var src io.Reader = bytes.NewReader(z)
	if c.BufSrc > 0 {
		src = newBufio(src, c.BufSrc)
	}
	readerSide := "std"
	if c.Dir != "f2s" {
		readerSide = "fast"
	}
	var out []byte
	var rerr error
	switch c.Pkg + "/" + readerSide {
	case "gzip/std":
		r, e := stdgzip.NewReader(src)
		if e != nil {
			return nil, false, fmt.Errorf("standard gzip.NewReader on fastgo's output: %v", e)
		}
		if e := hdrMatches(c.M.Hdr, r.Name, r.Comment, r.Extra, r.ModTime, r.OS); e != nil {
			return nil, false, fmt.Errorf("standard gzip Reader: %v", e)
		}
		out, rerr = readAllChunks(r, c.Reads, 0)
	case "gzip/fast":
		r, e := fgzip.NewReader(src)
		if e != nil {
			return nil, false, fmt.Errorf("fastgo gzip.NewReader on the %s Writer's output: %v", c.M.Enc, e)
		}
		if e := hdrMatches(c.M.Hdr, r.Name, r.Comment, r.Extra, r.ModTime, r.OS); e != nil {
			return nil, false, fmt.Errorf("fastgo gzip Reader: %v", e)
		}
		out, rerr = readAllChunks(r, c.Reads, 0)
	case "zlib/std":
		r, e := stdzlib.NewReaderDict(src, dict)
		if e != nil {
			return nil, false, fmt.Errorf("standard zlib.NewReaderDict on fastgo's output: %v", e)
		}
		out, rerr = readAllChunks(r, c.Reads, 0)
	default:
		r, e := fzlib.NewReaderDict(src, dict)
		if e != nil {
			return nil, false, fmt.Errorf("fastgo zlib.NewReaderDict on the %s Writer's output: %v", c.M.Enc, e)
		}
		out, rerr = readAllChunks(r, c.Reads, 0)
	}
	if rerr != io.EOF || !bytes.Equal(out, data) {
		return nil, false, fmt.Errorf("%s %s Reader on the %s Writer's output: %d bytes then %v; want %d bytes then EOF (first difference at %d)", readerSide, c.Pkg, c.M.Enc, len(out), rerr, len(data), firstDiff(out, data))
	}
	labels = append(labels, "pkg:"+c.Pkg, "dir:"+c.Dir, fmt.Sprintf("level:%d", c.M.Level))
	opt := c.M.Hdr != nil || c.M.Dict != nil || c.Reuse != nil
	if c.M.Hdr != nil {
		labels = append(labels, "optional-header-fields")
	}
	if c.M.Dict != nil {
		labels = append(labels, "dictionary")
	}
	if c.Reuse != nil {
		labels = append(labels, "writer-reused")
		if c.Abandon {
			labels = append(labels, "writer-reused-after-abandoned-stream")
		}
	}
	accel := c.M.Level == -2 || c.M.Level == -1 || c.M.Level == 1 || c.M.Level == 2
	return labels, len(data) >= 1 && (accel || opt), nil
}

func TestC06(t *testing.T) {
	rapid.Check(t, func(t *rapid.T) {
		c := drawC06(t)
		if c.Pkg == "zlib" && c.M.Dict != nil && knownActive("std-dict-stored-first-block") {
			if stdZlibDictBroken(c.M.Level, recipeBytes(c.M.Dict), c.M.Data.Bytes(), c.M.Ops) {
				stats.Exclude("C06", "std-dict-stored-first-block")
				return
			}
		}
		done := begin("C06", c)
		defer done()
		labels, nt, err := checkC06(c)
		if err != nil {
			saveLast("C06", c, err)
			t.Fatalf("C06 violated: %v", err)
		}
		stats.Record("C06", stats.Digest(c), nt, labels, func() any { return c })
	})
}

func init() {
	replayers["C06"] = func(raw json.RawMessage) error {
		var c C06Case
		if err := json.Unmarshal(raw, &c); err != nil {
			return err
		}
		_, _, err := checkC06(c)
		return err
	}
}
