package props

import (
	"bytes"
	"encoding/json"
	"fmt"
	"hash/fnv"
	"io"
	"os"
	"strconv"
	"strings"
	"testing"

	"github.com/intel/fastgo"
	fflate "github.com/intel/fastgo/compress/flate"

	"pgregory.net/rapid"

	"verifharness/gen"
	"verifharness/iox"
	"verifharness/refinflate"
	"verifharness/stats"
)

// C18: results do not depend on which CPU acceleration level is selected.

// ---------------------------------------------------------------- reader half

type C18Case struct {
	Input   StreamSpec `json:"input"`
	Prefix  bool       `json:"prefix"`
	Reads   []int      `json:"reads"`
	Chunks  []int      `json:"chunks"`
	EOFWith bool       `json:"eof_with"`
	BufSize int        `json:"buf_size,omitempty"` // >0: the source is the caller's *bufio.Reader of this size (long uninterrupted spans of input for the vector loop; triple-symbol tables need > 4096 bytes in hand)
	// writer-half replay
	Writer *C18WCase   `json:"writer,omitempty"`
	Enc    *C18EncCase `json:"enc,omitempty"`
	Other  string      `json:"other,omitempty"` // result digest recorded at another level
	OtherL int         `json:"other_level,omitempty"`
}

func runnableLevels() []int {
	var out []int
	for _, f := range strings.Split(os.Getenv("VERIF_LEVELS"), ",") {
		if n, err := strconv.Atoi(strings.TrimSpace(f)); err == nil {
			out = append(out, n)
		}
	}
	if len(out) == 0 {
		out = []int{0}
		if archLevel != 0 {
			out = append(out, archLevel)
		}
	}
	return out
}

func drawC18(t *rapid.T) C18Case {
	var c C18Case
	switch rapid.IntRange(0, 9).Draw(t, "ikind") {
	case 0, 1, 2, 3:
		c.Input = drawValidStream(t, 96<<10)
	case 4:
		c.Input = drawValidStream(t, 96<<10)
		c.Input.Mut = []Mutation{{Kind: "trunc", Pos: rapid.IntRange(0, 1<<20).Draw(t, "cut")}}
		c.Prefix = true
	default:
		c.Input, c.Prefix = drawMalformed(t)
		if c.Input.Kind == "synth" && c.Input.Synth.Fault != nil && c.Input.Synth.Tail < 600 {
			c.Input.Synth.Tail = 600
		}
	}
	c.Reads = drawReadSizes(t)
	c.Chunks, c.EOFWith = drawChunks(t)
	c.BufSize = rapid.SampledFrom([]int{0, 0, 16, 65536, 1 << 20}).Draw(t, "bufsize")
	return c
}

func checkC18(c C18Case) (labels []string, nontrivial bool, err error) {
	if c.Enc != nil {
		return nil, false, checkC18Enc(*c.Enc)
	}
	if c.Writer != nil {
		got, e := c18wResult(*c.Writer)
		if e != nil {
			return nil, false, e
		}
		if got != c.Other {
			return nil, false, fmt.Errorf("writer result at level %d is %s, at level %d it was %s", archLevel, got, c.OtherL, c.Other)
		}
		return nil, false, nil
	}
	defer guardPanic(&err)
	old := fastgo.VerifArchLevel()
	defer fastgo.VerifSetArchLevel(old)
	z, _, _, err := c.Input.Build()
	if err != nil {
		return nil, false, err
	}
	levels := runnableLevels()
	type res struct {
		out []byte
		err error
	}
	var results []res
	var strict *refinflate.Result
	for _, lvl := range levels {
		fastgo.VerifSetArchLevel(lvl)
		var src io.Reader = makeSource(z, c.Chunks, c.EOFWith)
		if c.BufSize > 0 {
			src = newBufio(src, c.BufSize)
		}
		r := fflate.NewReader(src)
		out, rerr := readAllChunks(r, c.Reads, 0)
		fastgo.VerifSetArchLevel(old)
		s, _, jerr := judgeMalformed(z, outcome{out, rerr}, c.Prefix)
		if jerr != nil {
			return nil, false, fmt.Errorf("at acceleration level %d: %v", lvl, jerr)
		}
		strict = s
		results = append(results, res{out, rerr})
	}
	for i := 1; i < len(results); i++ {
		a, b := results[0], results[i]
		if errKind(a.err) != errKind(b.err) {
			return nil, false, fmt.Errorf("outcome %s at level %d but %s at level %d (%d vs %d bytes)", errKind(a.err), levels[0], errKind(b.err), levels[i], len(a.out), len(b.out))
		}
		if !bytes.Equal(a.out, b.out) {
			return nil, false, fmt.Errorf("output at level %d (%d bytes) differs from level %d (%d bytes) at byte %d; outcome %s", levels[0], len(a.out), levels[i], len(b.out), firstDiff(a.out, b.out), errKind(a.err))
		}
	}
	labels = append(labels, "verdict:"+strict.Verdict.String(), fmt.Sprintf("levels:%v", levels))
	// does the AVX2 loop have a chance to run? a Huffman block with > 24 bytes of compressed data
	for _, b := range strict.Blocks {
		if b.Type == 0 {
			continue
		}
		end := b.EndBit
		if end < 0 {
			end = int64(len(z)) * 8
		}
		if (end-b.HeaderEndBit)/8 > 24 && int64(len(z))*8-b.HeaderEndBit > 24*8 && b.OutEnd-b.OutStart > 0 {
			nontrivial = true
		}
	}
	if nontrivial {
		labels = append(labels, "avx2-loop-eligible")
		if strict.Verdict != refinflate.Valid {
			labels = append(labels, "avx2-loop-eligible-and-not-valid")
		}
	}
	return labels, nontrivial && len(levels) >= 2, nil
}

func TestC18(t *testing.T) {
	rapid.Check(t, func(t *rapid.T) {
		c := drawC18(t)
		done := begin("C18", c)
		defer done()
		labels, nt, err := checkC18(c)
		if err != nil {
			saveLast("C18", c, err)
			t.Fatalf("C18 violated: %v", err)
		}
		stats.Record("C18", stats.Digest(c), nt, labels, func() any { return c })
	})
}

// ---------------------------------------------------------------- writer half

// C18WCase: one writer workload; its observable result must be the same at every level.
type C18WCase struct {
	Set    PSetting   `json:"set"`
	Data   gen.Recipe `json:"data"`
	Ops    []gen.Op   `json:"ops"` // W/F and a final C
	FailAt int        `json:"fail_at,omitempty"`
}

func drawC18W(t *rapid.T) C18WCase {
	var c C18WCase
	c.Set = drawPSetting(t, true, false)
	c.Data = gen.DrawRecipe(t, 200<<10)
	c.Ops = append(gen.DrawWriteOps(t, c.Data.Len(), true), gen.Op{K: "C"})
	if rapid.IntRange(0, 4).Draw(t, "fail") == 0 {
		c.FailAt = rapid.IntRange(1, 20).Draw(t, "failat")
	}
	return c
}

func digestBytes(b []byte) string {
	h := fnv.New64a()
	h.Write(b)
	return fmt.Sprintf("%d:%016x", len(b), h.Sum64())
}

// c18wResult runs the workload at the current level and summarises everything a
// caller can observe except the compressed bytes themselves (match choices may
// differ between levels): per-call errors, what each flushed prefix decodes to,
// what the whole stream decodes to.
func c18wResult(c C18WCase) (summary string, err error) {
	defer guardPanic(&err)
	data := c.Data.Bytes()
	sink := &iox.Sink{FailAt: c.FailAt, FailErr: errInjected, Sticky: true}
	w, err := newAnyWriter(sink, c.Set)
	if err != nil {
		return "", err
	}
	var sb strings.Builder
	off := 0
	failed := false
	for i, op := range c.Ops {
		var e error
		switch op.K {
		case "W":
			var n int
			n, e = w.Write(data[off : off+op.N])
			off += op.N
			if e == nil && n != op.N {
				return "", fmt.Errorf("op %d: Write(%d) = (%d, nil)", i, op.N, n)
			}
		case "F":
			e = w.Flush()
			if e == nil {
				// what the flushed prefix decodes to
				var body *refinflate.Result
				switch c.Set.Pkg {
				case "gzip":
					if g := refinflate.ParseGzip(sink.Bytes(), false); g.Partial != nil {
						body = g.Partial.Inflate
					}
				case "zlib":
					body = refinflate.ParseZlib(sink.Bytes(), nil).Inflate
				default:
					body = refinflate.Inflate(sink.Bytes(), refinflate.Options{})
				}
				if body == nil {
					return "", fmt.Errorf("op %d: flushed prefix has no decodable body", i)
				}
				if body.Verdict == refinflate.Corrupt || !bytes.Equal(body.Out, data[:off]) || !body.CleanCut {
					return "", fmt.Errorf("op %d: flushed prefix does not decode to the %d bytes written so far (%v, %d bytes, clean=%v)", i, off, body.Verdict, len(body.Out), body.CleanCut)
				}
				fmt.Fprintf(&sb, "F%d=%s;", i, digestBytes(body.Out))
			}
		case "C":
			e = w.Close()
		}
		if e != nil {
			failed = true
		}
		if c.FailAt == 0 {
			// with an injected fault, which call hits the k-th destination write depends on
			// compressed sizes (match choices), so only fault-free runs record per-call flags
			fmt.Fprintf(&sb, "%s%d:%v;", op.K, i, e != nil)
		} else if failed && e == nil {
			return "", fmt.Errorf("op %d (%s) returned nil after an earlier failure", i, op.K)
		}
	}
	if !failed {
		if e := checkCompleteContainer(c.Set.Pkg, sink.Bytes(), data, nil); e != nil {
			return "", e
		}
		fmt.Fprintf(&sb, "decoded=%s", digestBytes(data))
	} else if sink.AfterFail != 0 {
		return "", fmt.Errorf("the Writer called its destination %d more time(s) after the failure", sink.AfterFail)
	}
	if c.FailAt > 0 {
		// Whether (and during which call) the k-th destination write happens depends on the
		// compressed size, hence on match choices, which may legitimately differ between levels:
		// runs with an injected fault are checked in-process only and contribute a constant.
		return "fault-injected-run-checked-in-process", nil
	}
	return sb.String(), nil
}

// TestC18W appends "case-digest \t result \t case-json" lines to VERIF_TRANSCRIPT.
// The driver runs it with the same seed at every level and diffs the files.
func TestC18W(t *testing.T) {
	path := os.Getenv("VERIF_TRANSCRIPT")
	var f *os.File
	if path != "" {
		var err error
		f, err = os.Create(path)
		if err != nil {
			t.Fatal(err)
		}
		defer f.Close()
	}
	rapid.Check(t, func(t *rapid.T) {
		c := drawC18W(t)
		cc := C18Case{Writer: &c}
		done := begin("C18", cc)
		defer done()
		res, err := c18wResult(c)
		if err != nil {
			saveLast("C18", cc, err)
			t.Fatalf("C18 violated (writer half, level %d): %v", archLevel, err)
		}
		if f != nil {
			js, _ := json.Marshal(c)
			fmt.Fprintf(f, "%016x\t%s\t%s\n", stats.Digest(c), res, js)
		}
		stats.Record("C18", stats.Digest(c), c.Data.Len() > 0, []string{"writer-half", "setting:" + c.Set.String()}, func() any { return cc })
	})
}

func init() {
	replayers["C18"] = func(raw json.RawMessage) error {
		var c C18Case
		if err := json.Unmarshal(raw, &c); err != nil {
			return err
		}
		_, _, err := checkC18(c)
		return err
	}
}

var _ = io.EOF

// ---------------------------------------------------------------- token-encoder stress

// C18EncCase: data made of short copies from far back separated by a few literals, so that
// most tokens are matches whose code + extra bits are 25..31 bits long - the range around the
// vector token encoders' fast-path limits (which differ per acceleration level).
type C18EncCase struct {
	Seed    uint64 `json:"seed"`
	Size    int    `json:"size"`
	MaxLen  int    `json:"max_len"`
	MinBack int    `json:"min_back"`
	MaxLits int    `json:"max_lits"`
	Level   int    `json:"level"`
	Ctor    string `json:"ctor"`
	// Mode "skew": copy lengths and distances follow geometric frequency ladders (both Huffman trees
	// get a wide spread of code lengths, the rarest symbols cost 30..48 bits per token), with an
	// optional burst of long far copies after Pad extra literals and one final copy that is the only
	// user of its length and distance symbols.
	Mode   string `json:"mode,omitempty"`
	Ratio  int    `json:"ratio,omitempty"` // ladder ratio in percent (150..230)
	Init   int    `json:"init,omitempty"`
	DSym0  int    `json:"dsym0,omitempty"` // lowest distance symbol of the ladder
	NSym   int    `json:"nsym,omitempty"`
	Burst  int    `json:"burst,omitempty"`
	Units  int    `json:"units,omitempty"` // approximate number of ladder copies (0: as many as the ratio gives)
	Every  int    `json:"every,omitempty"` // a further burst after every so many ladder copies
	Pad    int    `json:"pad,omitempty"`
	Pool   int    `json:"pool,omitempty"`
	Filler int    `json:"filler,omitempty"`
	ULit   int    `json:"ulit,omitempty"`
	Final  bool   `json:"final,omitempty"`
	ZOneIn int    `json:"z_one_in,omitempty"` // mode "domlit"
	Gap    int    `json:"gap,omitempty"`
	AtEnd  bool   `json:"at_end,omitempty"` // the single burst comes after all ladder copies (so Pad alone decides where it lands in the output)
}

var distBase = [31]int{1, 2, 3, 4, 5, 7, 9, 13, 17, 25, 33, 49, 65, 97, 129, 193, 257, 385, 513, 769, 1025, 1537, 2049, 3073, 4097, 6145, 8193, 12289, 16385, 24577, 32769}

func (c C18EncCase) skewData() []byte {
	x := c.Seed*0x9E3779B97F4A7C15 + 7
	next := func() uint64 {
		x ^= x << 13
		x ^= x >> 7
		x ^= x << 17
		return x
	}
	intn := func(n int) int { return int(next() % uint64(n)) }
	var b []byte
	var fresh []int
	used := map[int]bool{}
	lit := func(n int) {
		for i := 0; i < n; i++ {
			if i+1 < n {
				fresh = append(fresh, len(b))
			}
			b = append(b, byte(next()>>24))
		}
	}
	copyFrom := func(d, l int) {
		if d > len(b) {
			d = len(b)
		}
		for i := 0; i < l; i++ {
			b = append(b, b[len(b)-d])
		}
	}
	// pick a source not used before, at a distance inside [lo,hi] (so the match finder sees one candidate)
	pick := func(lo, hi int) int {
		p0 := len(b)
		i := len(fresh) - 1
		for i >= 0 && p0-fresh[i] < lo {
			i--
		}
		var cand []int
		for ; i >= 0 && p0-fresh[i] <= hi && len(cand) < 64; i-- {
			if !used[fresh[i]] {
				cand = append(cand, fresh[i])
			}
		}
		if len(cand) == 0 {
			return lo + intn(hi-lo+1)
		}
		s := cand[intn(len(cand))]
		used[s] = true
		return p0 - s
	}
	type unit struct{ sym, l int }
	var units []unit
	cnt := 1.0
	ratio := float64(c.Ratio) / 100
	if c.Units > 0 {
		// scale the ladder so that it has about Units copies in all (the rarest symbol at least once)
		total, w := 0.0, 1.0
		for k := 0; k < c.NSym; k++ {
			total += w
			w *= ratio
		}
		if f := float64(c.Units) / total; f > 1 {
			cnt = f
		}
	}
	for s := c.NSym - 1; s >= 0; s-- {
		for i, n := 0, int(cnt+0.5); i < n; i++ {
			units = append(units, unit{c.DSym0 + s, 4})
		}
		cnt *= ratio
		if len(units) > 12000 {
			break
		}
	}
	lens := []int{17, 15, 13, 11, 10, 9, 8, 7, 6, 5}
	cnt = 1.0
	for k, li := len(units)-1, 0; li < len(lens) && k >= 0; li++ {
		for j, n := 0, int(cnt+0.5); j < n && k >= 0; j++ {
			units[k].l = lens[li]
			k -= 3
		}
		cnt *= ratio
	}
	for i := len(units) - 1; i > 0; i-- {
		j := intn(i + 1)
		units[i], units[j] = units[j], units[i]
	}
	lit(c.Init)
	burstAt := len(units)
	if c.Burst > 0 && !c.AtEnd {
		burstAt = intn(len(units) + 1)
	}
	lastPool := -1
	farBurst := func() {
		// copies from a stretch of random bytes laid down at the previous burst, 8..30 KiB back (12 or 13
		// extra distance bits each), every copy from its own slice of that stretch
		prev := lastPool
		if d := len(b) - prev; prev >= 0 && d >= 8200 && d+258 <= 32768 {
			lit(c.Pad % 7)
			for k := 0; k < c.Burst; k++ {
				l := 131 + intn(127)
				copyFrom(len(b)-(prev+k*258+intn(258-l)), l)
			}
			lit(2)
		}
		lastPool = len(b)
		lit(c.Burst * 258)
	}
	burst := func() {
		if c.Every > 0 {
			farBurst()
			return
		}
		poolStart := len(b)
		lit(c.Pool)
		lit(c.Filler)
		lit(c.Pad)
		for k := 0; k < c.Burst; k++ {
			l := 131 + intn(127)
			if c.Pool > l+8 {
				copyFrom(len(b)-(poolStart+intn(c.Pool-l-8)), l)
			}
		}
		lit(2)
	}
	for i, u := range units {
		if i == burstAt || (c.Every > 0 && c.Burst > 0 && i%c.Every == c.Every-1) {
			burst()
		}
		if len(b) > 120000 {
			break
		}
		copyFrom(pick(distBase[u.sym], distBase[u.sym+1]-1), u.l)
		lit(c.ULit)
	}
	if burstAt == len(units) && c.Burst > 0 {
		burst()
	}
	if c.Final {
		// the only user of its length symbol and of a distance symbol above the ladder
		s := c.DSym0 + c.NSym
		if s > 29 {
			s = 29
		}
		copyFrom(pick(distBase[s], distBase[s+1]-1), 131+intn(127))
	} else {
		lit(10)
	}
	return b
}

// domlitData: "F r F r ..." with r random and F one dominant byte (a 1-bit code) or, one time in
// ZOneIn, a second byte (a 3..5-bit code); no 4-byte substring repeats, so nearly every token is a
// literal. Clusters of 3..5 F bytes are sprinkled in (about one per Gap bytes): where one falls into
// the last bytes of a buffer fill, the Go tail of the match finder emits it as single-literal
// tokens of 1..5 bits in mid-block - groups of tokens that total less than one byte.
func (c C18EncCase) domlitData() []byte {
	x := c.Seed*0x9E3779B97F4A7C15 + 13
	next := func() uint64 {
		x ^= x << 13
		x ^= x >> 7
		x ^= x << 17
		return x
	}
	f := func() byte {
		if next()%uint64(c.ZOneIn) == 0 {
			return 'Z'
		}
		return 'X'
	}
	out := make([]byte, 0, c.Size+8)
	for i := 0; i < c.Pad; i++ {
		// leading filler (no X, no Z): shifts where the clusters fall against both the input buffer
		// fills and the encoder's output-buffer fill points
		r := byte(next() >> 24)
		for r == 'X' || r == 'Z' {
			r = byte(next() >> 24)
		}
		out = append(out, r)
	}
	for len(out) < c.Size {
		if next()%uint64(c.Gap) < 2 {
			for k, n := 0, 3+int(next()%3); k < n; k++ {
				out = append(out, f())
			}
		}
		out = append(out, f())
		r := byte(next() >> 24)
		for r == 'X' || r == 'Z' {
			r = byte(next() >> 24)
		}
		out = append(out, r)
	}
	return out[:c.Size]
}

func (c C18EncCase) data() []byte {
	if c.Mode == "skew" {
		return c.skewData()
	}
	if c.Mode == "domlit" {
		return c.domlitData()
	}
	x := c.Seed*0x9E3779B97F4A7C15 + 99
	next := func() uint64 {
		x ^= x << 13
		x ^= x >> 7
		x ^= x << 17
		return x
	}
	lead := c.MinBack + 4000
	out := make([]byte, 0, c.Size)
	for len(out) < lead {
		v := next()
		out = append(out, byte(v), byte(v>>8), byte(v>>16), byte(v>>24))
	}
	for len(out) < c.Size {
		l := 3 + int(next()%uint64(c.MaxLen-2))
		maxBack := len(out)
		if maxBack > 32700 {
			maxBack = 32700
		}
		back := c.MinBack + int(next()%uint64(maxBack-c.MinBack))
		start := len(out) - back
		for i := 0; i < l; i++ {
			out = append(out, out[start+i])
		}
		for i, nl := 0, int(next()%uint64(c.MaxLits+1)); i < nl; i++ {
			out = append(out, byte(next()>>24))
		}
	}
	return out[:c.Size]
}

func checkC18Enc(c C18EncCase) error {
	data := c.data()
	z, err := runWriterOps(WSetting{Ctor: c.Ctor, Level: c.Level}, data, []gen.Op{{K: "W", N: len(data)}})
	if err != nil {
		return err
	}
	out, derr, consumed := stdInflate(z, nil)
	if derr != nil || !bytes.Equal(out, data) || consumed != len(z) {
		return fmt.Errorf("level-%d output of %d bytes of far-copy data does not round-trip at acceleration level %d: err=%v, %d bytes, first difference at %d", c.Level, len(data), archLevel, derr, len(out), firstDiff(out, data))
	}
	return nil
}

func TestC18Enc(t *testing.T) {
	rapid.Check(t, func(t *rapid.T) {
		c := C18EncCase{
			Seed:    rapid.Uint64Range(0, 1<<40).Draw(t, "seed"),
			Size:    rapid.IntRange(30000, 70000).Draw(t, "size"),
			MaxLen:  rapid.SampledFrom([]int{8, 12, 43, 43, 100, 258}).Draw(t, "maxlen"),
			MinBack: rapid.SampledFrom([]int{2100, 4100, 8200, 8200, 16400, 24600}).Draw(t, "minback"),
			MaxLits: rapid.IntRange(0, 3).Draw(t, "maxlits"),
			Level:   rapid.SampledFrom([]int{1, 2}).Draw(t, "level"),
			Ctor:    rapid.SampledFrom([]string{"new", "new", "4k"}).Draw(t, "ctor"),
		}
		label := "token-encoder-stress"
		if rapid.IntRange(0, 3).Draw(t, "domlit") == 0 {
			label = "token-encoder-tiny-tokens"
			c = C18EncCase{Seed: c.Seed, Mode: "domlit", Ctor: rapid.SampledFrom([]string{"4k", "4k", "new"}).Draw(t, "dctor"), Level: rapid.SampledFrom([]int{1, 2}).Draw(t, "dlevel"),
				Size: rapid.IntRange(9000, 90000).Draw(t, "dsize"), ZOneIn: rapid.SampledFrom([]int{4, 8, 8, 16}).Draw(t, "zonein"), Gap: rapid.SampledFrom([]int{16, 32, 64}).Draw(t, "gap")}
		} else if rapid.IntRange(0, 2).Draw(t, "skew") > 0 {
			label = "token-encoder-skewed-codes"
			c.Mode, c.Size, c.MaxLen, c.MinBack, c.MaxLits = "skew", 0, 0, 0, 0
			c.Level = rapid.SampledFrom([]int{-1, 1, 2}).Draw(t, "slevel")
			c.Ratio = rapid.IntRange(150, 230).Draw(t, "ratio")
			c.NSym = rapid.IntRange(8, 16).Draw(t, "nsym")
			c.DSym0 = rapid.IntRange(2, 29-c.NSym).Draw(t, "dsym0")
			c.Init = rapid.SampledFrom([]int{600, 2000, 3200, 8000}).Draw(t, "init")
			if need := distBase[c.DSym0+c.NSym] + 500; c.Init < need && need < 30000 {
				c.Init = need
			}
			c.ULit = rapid.IntRange(0, 3).Draw(t, "ulit")
			c.Units = rapid.SampledFrom([]int{0, 2000, 4000, 6000, 9000}).Draw(t, "units")
			c.Final = rapid.Bool().Draw(t, "final")
			if rapid.Bool().Draw(t, "hasburst") {
				c.Burst = rapid.SampledFrom([]int{8, 16, 24, 64, 64, 150}).Draw(t, "burst")
				c.Pool = rapid.SampledFrom([]int{1000, 3000, 3000, 9000}).Draw(t, "pool")
				c.Filler = rapid.SampledFrom([]int{0, 4200, 4200, 12000, 20000}).Draw(t, "filler")
				c.Pad = rapid.IntRange(0, 400).Draw(t, "pad")
				c.Every = rapid.SampledFrom([]int{0, 300, 700, 700, 1500}).Draw(t, "every")
				if c.Every > 0 {
					c.Pool, c.Filler = 1000, rapid.SampledFrom([]int{0, 0, 2000}).Draw(t, "filler2")
					c.Burst = rapid.SampledFrom([]int{16, 24, 32, 64}).Draw(t, "burst2")
				}
			}
		}
		cc := C18Case{Enc: &c}
		done := begin("C18", cc)
		defer done()
		if err := checkC18Enc(c); err != nil {
			saveLast("C18", cc, err)
			t.Fatalf("C18 violated (token-encoder stress, level %d): %v", archLevel, err)
		}
		stats.Record("C18", stats.Digest(c), true, []string{label}, func() any { return cc })
	})
}

// TestC18EncSweep slides one burst of the most expensive tokens (long copies from far back, whose
// symbols are rare in the block: 33..40 bits each) across the point where the encoder's output
// buffer fills, one to three literal bytes at a time over a whole buffer period, so that the
// buffer-full exits in the middle of a group of long tokens are taken at every phase.
func TestC18EncSweep(t *testing.T) {
	step := 5
	if thorough() {
		step = 1
	}
	n := 0
	variants := []C18EncCase{
		{Seed: 8, Ctor: "new", Mode: "skew", Ratio: 100, NSym: 9, DSym0: 8, Units: 6000, Init: 600, ULit: 2, Burst: 64, Pool: 3000, Filler: 4200, AtEnd: true},
		{Seed: 9, Ctor: "new", Mode: "skew", Ratio: 170, NSym: 12, DSym0: 6, Units: 4000, Init: 3200, ULit: 2, Burst: 64, Pool: 3000, Filler: 9000, AtEnd: true},
	}
	for vi, v := range variants {
		if vi > 0 && !thorough() {
			break
		}
		for _, lvl := range []int{-1, 1} {
			for pad := 0; pad <= 8400; pad += step {
				c := v
				c.Level, c.Pad = lvl, pad
				cc := C18Case{Enc: &c}
				done := begin("C18", cc)
				err := checkC18Enc(c)
				done()
				if err != nil {
					saveLast("C18", cc, err)
					t.Fatalf("C18 violated (burst of long tokens slid across the output-buffer boundary, pad %d, level %d): %v", pad, archLevel, err)
				}
				stats.Record("C18", stats.Digest(c), true, []string{"long-token-burst-sweep"}, func() any { return cc })
				n++
			}
		}
	}
	// the same for groups of tiny tokens (1..5-bit single literals emitted by the scalar tail of the
	// match finder at every input buffer fill): dense clusters, 4 KiB window (a fill every 4354 bytes),
	// shifted by every number of leading filler bytes over one fill period
	m := 0
	for _, lvl := range []int{1, 2} {
		for pad := 0; pad <= 4400; pad += step {
			c := C18EncCase{Seed: 77, Mode: "domlit", Ctor: "4k", Level: lvl, Size: 36000, ZOneIn: 8, Gap: 16, Pad: pad}
			cc := C18Case{Enc: &c}
			done := begin("C18", cc)
			err := checkC18Enc(c)
			done()
			if err != nil {
				saveLast("C18", cc, err)
				t.Fatalf("C18 violated (tiny-token clusters shifted against the buffer fills, pad %d, level %d): %v", pad, archLevel, err)
			}
			stats.Record("C18", stats.Digest(c), true, []string{"tiny-token-sweep"}, func() any { return cc })
			m++
		}
	}
	stats.Exhaustive("C18", fmt.Sprintf("dominant-literal data with dense clusters of 1..5-bit single-literal tokens, 4 KiB window, preceded by every number of filler bytes from 0 to 4400 in steps of %d (one input-buffer fill period), levels 1 and 2", step), m)
	stats.Exhaustive("C18", fmt.Sprintf("a burst of 64 long far copies (33..40 bits per token) preceded by every number of padding literals from 0 to 8400 in steps of %d (a whole output-buffer period)", step), n)
}
