package props

import (
	"bytes"
	"encoding/json"
	"fmt"
	"hash/fnv"
	"io"
	"os"
	"strconv"
	"strings"
	"testing"

	"github.com/intel/fastgo"
	fflate "github.com/intel/fastgo/compress/flate"

	"pgregory.net/rapid"

	"verifharness/gen"
	"verifharness/iox"
	"verifharness/refinflate"
	"verifharness/stats"
)

// C18: results do not depend on which CPU acceleration level is selected.

// ---------------------------------------------------------------- reader half

type C18Case struct {
	Input   StreamSpec `json:"input"`
	Prefix  bool       `json:"prefix"`
	Reads   []int      `json:"reads"`
	Chunks  []int      `json:"chunks"`
	EOFWith bool       `json:"eof_with"`
	// writer-half replay
	Writer *C18WCase   `json:"writer,omitempty"`
	Enc    *C18EncCase `json:"enc,omitempty"`
	Other  string      `json:"other,omitempty"` // result digest recorded at another level
	OtherL int         `json:"other_level,omitempty"`
}

func runnableLevels() []int {
	var out []int
	for _, f := range strings.Split(os.Getenv("VERIF_LEVELS"), ",") {
		if n, err := strconv.Atoi(strings.TrimSpace(f)); err == nil {
			out = append(out, n)
		}
	}
	if len(out) == 0 {
		out = []int{0}
		if archLevel != 0 {
			out = append(out, archLevel)
		}
	}
	return out
}

func drawC18(t *rapid.T) C18Case {
	var c C18Case
	switch rapid.IntRange(0, 9).Draw(t, "ikind") {
	case 0, 1, 2, 3:
		c.Input = drawValidStream(t, 96<<10)
	case 4:
		c.Input = drawValidStream(t, 96<<10)
		c.Input.Mut = []Mutation{{Kind: "trunc", Pos: rapid.IntRange(0, 1<<20).Draw(t, "cut")}}
		c.Prefix = true
	default:
		c.Input, c.Prefix = drawMalformed(t)
		if c.Input.Kind == "synth" && c.Input.Synth.Fault != nil && c.Input.Synth.Tail < 600 {
			c.Input.Synth.Tail = 600
		}
	}
	c.Reads = drawReadSizes(t)
	c.Chunks, c.EOFWith = drawChunks(t)
	return c
}

func checkC18(c C18Case) (labels []string, nontrivial bool, err error) {
	if c.Enc != nil {
		return nil, false, checkC18Enc(*c.Enc)
	}
	if c.Writer != nil {
		got, e := c18wResult(*c.Writer)
		if e != nil {
			return nil, false, e
		}
		if got != c.Other {
			return nil, false, fmt.Errorf("writer result at level %d is %s, at level %d it was %s", archLevel, got, c.OtherL, c.Other)
		}
		return nil, false, nil
	}
	defer guardPanic(&err)
	old := fastgo.VerifArchLevel()
	defer fastgo.VerifSetArchLevel(old)
	z, _, _, err := c.Input.Build()
	if err != nil {
		return nil, false, err
	}
	levels := runnableLevels()
	type res struct {
		out []byte
		err error
	}
	var results []res
	var strict *refinflate.Result
	for _, lvl := range levels {
		fastgo.VerifSetArchLevel(lvl)
		r := fflate.NewReader(makeSource(z, c.Chunks, c.EOFWith))
		out, rerr := readAllChunks(r, c.Reads, 0)
		fastgo.VerifSetArchLevel(old)
		s, _, jerr := judgeMalformed(z, outcome{out, rerr}, c.Prefix)
		if jerr != nil {
			return nil, false, fmt.Errorf("at acceleration level %d: %v", lvl, jerr)
		}
		strict = s
		results = append(results, res{out, rerr})
	}
	for i := 1; i < len(results); i++ {
		a, b := results[0], results[i]
		if errKind(a.err) != errKind(b.err) {
			return nil, false, fmt.Errorf("outcome %s at level %d but %s at level %d (%d vs %d bytes)", errKind(a.err), levels[0], errKind(b.err), levels[i], len(a.out), len(b.out))
		}
		if !bytes.Equal(a.out, b.out) {
			return nil, false, fmt.Errorf("output at level %d (%d bytes) differs from level %d (%d bytes) at byte %d; outcome %s", levels[0], len(a.out), levels[i], len(b.out), firstDiff(a.out, b.out), errKind(a.err))
		}
	}
	labels = append(labels, "verdict:"+strict.Verdict.String(), fmt.Sprintf("levels:%v", levels))
	// does the AVX2 loop have a chance to run? a Huffman block with > 24 bytes of compressed data
	for _, b := range strict.Blocks {
		if b.Type == 0 {
			continue
		}
		end := b.EndBit
		if end < 0 {
			end = int64(len(z)) * 8
		}
		if (end-b.HeaderEndBit)/8 > 24 && int64(len(z))*8-b.HeaderEndBit > 24*8 && b.OutEnd-b.OutStart > 0 {
			nontrivial = true
		}
	}
	if nontrivial {
		labels = append(labels, "avx2-loop-eligible")
		if strict.Verdict != refinflate.Valid {
			labels = append(labels, "avx2-loop-eligible-and-not-valid")
		}
	}
	return labels, nontrivial && len(levels) >= 2, nil
}

func TestC18(t *testing.T) {
	rapid.Check(t, func(t *rapid.T) {
		c := drawC18(t)
		done := begin("C18", c)
		defer done()
		labels, nt, err := checkC18(c)
		if err != nil {
			saveLast("C18", c, err)
			t.Fatalf("C18 violated: %v", err)
		}
		stats.Record("C18", stats.Digest(c), nt, labels, func() any { return c })
	})
}

// ---------------------------------------------------------------- writer half

// C18WCase: one writer workload; its observable result must be the same at every level.
type C18WCase struct {
	Set    PSetting   `json:"set"`
	Data   gen.Recipe `json:"data"`
	Ops    []gen.Op   `json:"ops"` // W/F and a final C
	FailAt int        `json:"fail_at,omitempty"`
}

func drawC18W(t *rapid.T) C18WCase {
	var c C18WCase
	c.Set = drawPSetting(t, true, false)
	c.Data = gen.DrawRecipe(t, 200<<10)
	c.Ops = append(gen.DrawWriteOps(t, c.Data.Len(), true), gen.Op{K: "C"})
	if rapid.IntRange(0, 4).Draw(t, "fail") == 0 {
		c.FailAt = rapid.IntRange(1, 20).Draw(t, "failat")
	}
	return c
}

func digestBytes(b []byte) string {
	h := fnv.New64a()
	h.Write(b)
	return fmt.Sprintf("%d:%016x", len(b), h.Sum64())
}

// c18wResult runs the workload at the current level and summarises everything a
// caller can observe except the compressed bytes themselves (match choices may
// differ between levels): per-call errors, what each flushed prefix decodes to,
// what the whole stream decodes to.
func c18wResult(c C18WCase) (summary string, err error) {
	defer guardPanic(&err)
	data := c.Data.Bytes()
	sink := &iox.Sink{FailAt: c.FailAt, FailErr: errInjected, Sticky: true}
	w, err := newAnyWriter(sink, c.Set)
	if err != nil {
		return "", err
	}
	var sb strings.Builder
	off := 0
	failed := false
	for i, op := range c.Ops {
		var e error
		switch op.K {
		case "W":
			var n int
			n, e = w.Write(data[off : off+op.N])
			off += op.N
			if e == nil && n != op.N {
				return "", fmt.Errorf("op %d: Write(%d) = (%d, nil)", i, op.N, n)
			}
		case "F":
			e = w.Flush()
			if e == nil {
				// what the flushed prefix decodes to
				var body *refinflate.Result
				switch c.Set.Pkg {
				case "gzip":
					if g := refinflate.ParseGzip(sink.Bytes(), false); g.Partial != nil {
						body = g.Partial.Inflate
					}
				case "zlib":
					body = refinflate.ParseZlib(sink.Bytes(), nil).Inflate
				default:
					body = refinflate.Inflate(sink.Bytes(), refinflate.Options{})
				}
				if body == nil {
					return "", fmt.Errorf("op %d: flushed prefix has no decodable body", i)
				}
				if body.Verdict == refinflate.Corrupt || !bytes.Equal(body.Out, data[:off]) || !body.CleanCut {
					return "", fmt.Errorf("op %d: flushed prefix does not decode to the %d bytes written so far (%v, %d bytes, clean=%v)", i, off, body.Verdict, len(body.Out), body.CleanCut)
				}
				fmt.Fprintf(&sb, "F%d=%s;", i, digestBytes(body.Out))
			}
		case "C":
			e = w.Close()
		}
		if e != nil {
			failed = true
		}
		if c.FailAt == 0 {
			// with an injected fault, which call hits the k-th destination write depends on
			// compressed sizes (match choices), so only fault-free runs record per-call flags
			fmt.Fprintf(&sb, "%s%d:%v;", op.K, i, e != nil)
		} else if failed && e == nil {
			return "", fmt.Errorf("op %d (%s) returned nil after an earlier failure", i, op.K)
		}
	}
	if !failed {
		if e := checkCompleteContainer(c.Set.Pkg, sink.Bytes(), data, nil); e != nil {
			return "", e
		}
		fmt.Fprintf(&sb, "decoded=%s", digestBytes(data))
	} else if sink.AfterFail != 0 {
		return "", fmt.Errorf("the Writer called its destination %d more time(s) after the failure", sink.AfterFail)
	}
	if c.FailAt > 0 {
		// Whether (and during which call) the k-th destination write happens depends on the
		// compressed size, hence on match choices, which may legitimately differ between levels:
		// runs with an injected fault are checked in-process only and contribute a constant.
		return "fault-injected-run-checked-in-process", nil
	}
	return sb.String(), nil
}

// TestC18W appends "case-digest \t result \t case-json" lines to VERIF_TRANSCRIPT.
// The driver runs it with the same seed at every level and diffs the files.
func TestC18W(t *testing.T) {
	path := os.Getenv("VERIF_TRANSCRIPT")
	var f *os.File
	if path != "" {
		var err error
		f, err = os.Create(path)
		if err != nil {
			t.Fatal(err)
		}
		defer f.Close()
	}
	rapid.Check(t, func(t *rapid.T) {
		c := drawC18W(t)
		cc := C18Case{Writer: &c}
		done := begin("C18", cc)
		defer done()
		res, err := c18wResult(c)
		if err != nil {
			saveLast("C18", cc, err)
			t.Fatalf("C18 violated (writer half, level %d): %v", archLevel, err)
		}
		if f != nil {
			js, _ := json.Marshal(c)
			fmt.Fprintf(f, "%016x\t%s\t%s\n", stats.Digest(c), res, js)
		}
		stats.Record("C18", stats.Digest(c), c.Data.Len() > 0, []string{"writer-half", "setting:" + c.Set.String()}, func() any { return cc })
	})
}

func init() {
	replayers["C18"] = func(raw json.RawMessage) error {
		var c C18Case
		if err := json.Unmarshal(raw, &c); err != nil {
			return err
		}
		_, _, err := checkC18(c)
		return err
	}
}

var _ = io.EOF

// ---------------------------------------------------------------- token-encoder stress

// C18EncCase: data made of short copies from far back separated by a few literals, so that
// most tokens are matches whose code + extra bits are 25..31 bits long - the range around the
// vector token encoders' fast-path limits (which differ per acceleration level).
type C18EncCase struct {
	Seed    uint64 `json:"seed"`
	Size    int    `json:"size"`
	MaxLen  int    `json:"max_len"`
	MinBack int    `json:"min_back"`
	MaxLits int    `json:"max_lits"`
	Level   int    `json:"level"`
	Ctor    string `json:"ctor"`
}

func (c C18EncCase) data() []byte {
	x := c.Seed*0x9E3779B97F4A7C15 + 99
	next := func() uint64 {
		x ^= x << 13
		x ^= x >> 7
		x ^= x << 17
		return x
	}
	lead := c.MinBack + 4000
	out := make([]byte, 0, c.Size)
	for len(out) < lead {
		v := next()
		out = append(out, byte(v), byte(v>>8), byte(v>>16), byte(v>>24))
	}
	for len(out) < c.Size {
		l := 3 + int(next()%uint64(c.MaxLen-2))
		maxBack := len(out)
		if maxBack > 32700 {
			maxBack = 32700
		}
		back := c.MinBack + int(next()%uint64(maxBack-c.MinBack))
		start := len(out) - back
		for i := 0; i < l; i++ {
			out = append(out, out[start+i])
		}
		for i, nl := 0, int(next()%uint64(c.MaxLits+1)); i < nl; i++ {
			out = append(out, byte(next()>>24))
		}
	}
	return out[:c.Size]
}

func checkC18Enc(c C18EncCase) error {
	data := c.data()
	z, err := runWriterOps(WSetting{Ctor: c.Ctor, Level: c.Level}, data, []gen.Op{{K: "W", N: len(data)}})
	if err != nil {
		return err
	}
	out, derr, consumed := stdInflate(z, nil)
	if derr != nil || !bytes.Equal(out, data) || consumed != len(z) {
		return fmt.Errorf("level-%d output of %d bytes of far-copy data does not round-trip at acceleration level %d: err=%v, %d bytes, first difference at %d", c.Level, len(data), archLevel, derr, len(out), firstDiff(out, data))
	}
	return nil
}

func TestC18Enc(t *testing.T) {
	rapid.Check(t, func(t *rapid.T) {
		c := C18EncCase{
			Seed:    rapid.Uint64Range(0, 1<<40).Draw(t, "seed"),
			Size:    rapid.IntRange(30000, 70000).Draw(t, "size"),
			MaxLen:  rapid.SampledFrom([]int{8, 12, 43, 43, 100, 258}).Draw(t, "maxlen"),
			MinBack: rapid.SampledFrom([]int{2100, 4100, 8200, 8200, 16400, 24600}).Draw(t, "minback"),
			MaxLits: rapid.IntRange(0, 3).Draw(t, "maxlits"),
			Level:   rapid.SampledFrom([]int{1, 2}).Draw(t, "level"),
			Ctor:    rapid.SampledFrom([]string{"new", "new", "4k"}).Draw(t, "ctor"),
		}
		cc := C18Case{Enc: &c}
		done := begin("C18", cc)
		defer done()
		if err := checkC18Enc(c); err != nil {
			saveLast("C18", cc, err)
			t.Fatalf("C18 violated (token-encoder stress, level %d): %v", archLevel, err)
		}
		stats.Record("C18", stats.Digest(c), true, []string{"token-encoder-stress"}, func() any { return cc })
	})
}
