package props

import (
	"bytes"
	"encoding/json"
	"fmt"
	"io"
	"testing"

	"pgregory.net/rapid"

	"verifharness/gen"
	"verifharness/refinflate"
	"verifharness/stats"
)

// C01: compress then decompress returns the input, for every setting and call pattern.

type C01Case struct {
	Data gen.Recipe `json:"data"`
	Set  WSetting   `json:"set"`
	Ops  []gen.Op   `json:"ops"` // Write/Flush sequence; Close is implied at the end
}

func maxData() int {
	if thorough() {
		return 1 << 20
	}
	return 300 << 10
}

func drawSetting(t *rapid.T) WSetting {
	var s WSetting
	s.Ctor = rapid.SampledFrom([]string{"new", "new", "new", "4k", "4k", "dict"}).Draw(t, "ctor")
	// accelerated levels are drawn more often than delegated ones
	s.Level = rapid.SampledFrom([]int{-2, -2, -1, -1, 1, 1, 1, 2, 2, 2, 0, 3, 4, 5, 6, 7, 8, 9}).Draw(t, "level")
	if s.Ctor == "dict" {
		switch rapid.IntRange(0, 3).Draw(t, "dictkind") {
		case 0:
			s.Dict = nil
		case 1:
			s.Dict = &gen.Recipe{}
		case 2:
			r := gen.Recipe{Segs: []gen.Seg{gen.DrawSeg(t, rapid.IntRange(1, 300).Draw(t, "dictlen"))}}
			s.Dict = &r
		default:
			r := gen.Recipe{Segs: []gen.Seg{gen.DrawSeg(t, rapid.IntRange(32760, 40000).Draw(t, "dictlen"))}}
			s.Dict = &r
		}
	}
	return s
}

func drawC01(t *rapid.T) C01Case {
	var c C01Case
	c.Set = drawSetting(t)
	c.Data = gen.DrawRecipe(t, maxData())
	c.Ops = gen.DrawWriteOps(t, c.Data.Len(), true)
	return c
}

// runWriterOps executes ops (W/F) then Close on a fresh flate Writer with the
// canary guard in place and returns the emitted bytes.
func runWriterOps(set WSetting, data []byte, ops []gen.Op) (z []byte, err error) {
	defer guardPanic(&err)
	var dst bytes.Buffer
	w, err := newFlateWriter(&dst, set)
	if err != nil {
		return nil, fmt.Errorf("constructor %v: %v", set, err)
	}
	guard := w.VerifGuard()
	chk := func(what string) error {
		if guard != nil {
			if e := guard(); e != nil {
				return fmt.Errorf("after %s: %v", what, e)
			}
		}
		return nil
	}
	off := 0
	for i, op := range ops {
		switch op.K {
		case "W":
			n, e := writeReused(w, data[off:off+op.N])
			if e != nil || n != op.N {
				return nil, fmt.Errorf("op %d Write(%d bytes) = (%d, %v)", i, op.N, n, e)
			}
			off += op.N
		case "F":
			if e := w.Flush(); e != nil {
				return nil, fmt.Errorf("op %d Flush = %v", i, e)
			}
		}
		if e := chk(fmt.Sprintf("op %d (%s)", i, op.K)); e != nil {
			return nil, e
		}
	}
	if off != len(data) {
		return nil, fmt.Errorf("harness: ops cover %d of %d bytes", off, len(data))
	}
	if e := w.Close(); e != nil {
		return nil, fmt.Errorf("Close = %v", e)
	}
	if e := chk("Close"); e != nil {
		return nil, e
	}
	return dst.Bytes(), nil
}

// checkCompleteStream is C01's oracle on emitted bytes z.
func checkCompleteStream(z, data, dict []byte) (*refinflate.Result, error) {
	ref := refinflate.Inflate(z, refinflate.Options{Dict: dict})
	if err := selfCheck(z, dict, ref); err != nil {
		// If the oracles disagree only because the stream is bad in different ways, it is still a violation below;
		// but if the reference says VALID+equal and std differs (or vice versa), that is for the harness to resolve.
		if ref.Verdict == refinflate.Valid {
			return ref, err
		}
	}
	if ref.Verdict != refinflate.Valid {
		return ref, fmt.Errorf("reference inflater: %v at bit %d (%s) after %d of %d bytes; stream %d bytes", ref.Verdict, ref.DefectBit, ref.Reason, len(ref.Out), len(data), len(z))
	}
	if !bytes.Equal(ref.Out, data) {
		return ref, fmt.Errorf("reference inflater output differs at byte %d (got %d bytes, want %d)", firstDiff(ref.Out, data), len(ref.Out), len(data))
	}
	if ref.EndByte != len(z) {
		return ref, fmt.Errorf("stream ends after %d bytes but %d were emitted (not exactly one complete stream)", ref.EndByte, len(z))
	}
	out, err, consumed := stdInflate(z, dict)
	if err != nil || !bytes.Equal(out, data) {
		return ref, fmt.Errorf("compress/flate: err=%v, %d bytes, first difference at %d", err, len(out), firstDiff(out, data))
	}
	if consumed != len(z) {
		return ref, fmt.Errorf("compress/flate consumed %d of %d emitted bytes", consumed, len(z))
	}
	fout, ferr := fastInflate(z, dict)
	if ferr != nil || !bytes.Equal(fout, data) {
		return ref, fmt.Errorf("fastgo Reader: err=%v, %d bytes, first difference at %d", ferr, len(fout), firstDiff(fout, data))
	}
	return ref, nil
}

func checkC01(c C01Case) (labels []string, nontrivial bool, err error) {
	data := c.Data.Bytes()
	dict := c.Set.dictBytes()
	z, err := runWriterOps(c.Set, data, c.Ops)
	if err != nil {
		return nil, false, err
	}
	ref, err := checkCompleteStream(z, data, dict)
	if err != nil {
		return nil, false, err
	}
	return writerLabels(c.Set, data, c.Ops, ref), len(data) >= 1 && !c.Set.delegated(), nil
}

func writerLabels(set WSetting, data []byte, ops []gen.Op, ref *refinflate.Result) (labels []string) {
	w := set.window()
	labels = append(labels, fmt.Sprintf("setting:%s", set))
	if set.delegated() {
		labels = append(labels, "delegated")
	}
	if len(data) >= 2*w+258 {
		labels = append(labels, "crosses-2w+258")
	}
	if len(data) > 65536 {
		labels = append(labels, "data>64KiB")
	}
	if len(ref.Blocks) >= 2 {
		labels = append(labels, "blocks>=2")
	}
	for _, b := range ref.Blocks {
		if b.NSym >= 32767 {
			labels = append(labels, "token-limit-block")
			break
		}
	}
	if gen.HasFlush(ops) {
		labels = append(labels, "has-flush")
	}
	for _, o := range ops {
		if o.K == "W" && o.N == 0 {
			labels = append(labels, "zero-length-write")
			break
		}
	}
	if ref.MaxLen == 258 {
		labels = append(labels, "match-258")
	}
	if ref.MaxDist >= w-2 {
		labels = append(labels, "maxdist>=w-2")
	}
	if set.Ctor == "dict" && set.Dict != nil {
		labels = append(labels, "dictionary")
	}
	if set.Level == -2 && len(data) >= 65536 {
		labels = append(labels, "huffman-only-multi-block")
	}
	return labels
}

func TestC01(t *testing.T) {
	rapid.Check(t, func(t *rapid.T) {
		c := drawC01(t)
		if c.Set.Ctor == "dict" && c.Set.Dict != nil && knownActive("std-dict-stored-first-block") &&
			stdDictRoundTripBroken(c.Set.Level, c.Set.dictBytes(), c.Data.Bytes(), c.Ops) {
			stats.Exclude("C01", "std-dict-stored-first-block")
			return
		}
		done := begin("C01", c)
		defer done()
		labels, nt, err := checkC01(c)
		if err != nil {
			saveLast("C01", c, err)
			t.Fatalf("C01 violated: %v", err)
		}
		stats.Record("C01", stats.Digest(c), nt, labels, func() any { return c })
	})
}

// TestC01Ex enumerates every length T+d around each buffer threshold.
func TestC01Ex(t *testing.T) {
	dmax := 3
	if thorough() {
		dmax = 9
	}
	count := 0
	for _, T := range gen.Thresholds {
		for d := -dmax; d <= dmax; d++ {
			n := T + d
			if n < 0 {
				continue
			}
			for _, ctor := range []string{"new", "4k"} {
				for _, lvl := range []int{-2, 1, 2} {
					for mode := 0; mode < 2; mode++ {
						for kind := 0; kind < 2; kind++ {
							c := C01Case{Set: WSetting{Ctor: ctor, Level: lvl}}
							if kind == 0 {
								c.Data = gen.Recipe{Segs: []gen.Seg{{Kind: "text", N: n, Seed: uint64(T)}}}
							} else {
								c.Data = gen.Recipe{Segs: []gen.Seg{{Kind: "rand", N: n, A: 4, Seed: uint64(T)}}}
							}
							if mode == 0 || n < 2 {
								c.Ops = []gen.Op{{K: "W", N: n}}
							} else {
								cut := T - 1
								if cut > n {
									cut = n - 1
								}
								c.Ops = []gen.Op{{K: "W", N: cut}, {K: "W", N: n - cut}}
							}
							done := begin("C01", c)
							labels, nt, err := checkC01(c)
							done()
							if err != nil {
								saveLast("C01", c, err)
								t.Fatalf("C01 violated (threshold enumeration): %v", err)
							}
							stats.Record("C01", stats.Digest(c), nt, append(labels, "threshold-enumeration"), func() any { return c })
							count++
						}
					}
				}
			}
		}
	}
	// token-limit family: incompressible bytes (one token each) up to just below the 32767-token
	// block limit, then a long run / long match that starts within the last tokens of the block
	tl := 0
	step := 7
	if thorough() {
		step = 1
	}
	for d := -270; d <= 6; d++ {
		if d < -8 && (d+270)%step != 0 {
			continue
		}
		for _, ctor := range []string{"new", "4k"} {
			for _, lvl := range []int{1, 2} {
				for kind := 0; kind < 2; kind++ {
					c := C01Case{Set: WSetting{Ctor: ctor, Level: lvl}}
					c.Data = gen.Recipe{Segs: []gen.Seg{{Kind: "rand", N: 32767 + d, A: 256, Seed: uint64(7 + kind)}}}
					if kind == 0 {
						c.Data.Segs = append(c.Data.Segs, gen.Seg{Kind: "run", N: 1300, A: 0x41})
					} else {
						c.Data.Segs = append(c.Data.Segs, gen.Seg{Kind: "period", N: 1300, A: 7, Seed: 3})
					}
					c.Data.Segs = append(c.Data.Segs, gen.Seg{Kind: "text", N: 50, Seed: 1})
					c.Ops = []gen.Op{{K: "W", N: c.Data.Len()}}
					done := begin("C01", c)
					labels, nt, err := checkC01(c)
					done()
					if err != nil {
						saveLast("C01", c, err)
						t.Fatalf("C01 violated (token-limit enumeration): %v", err)
					}
					stats.Record("C01", stats.Digest(c), nt, append(labels, "token-limit-enumeration"), func() any { return c })
					tl++
				}
			}
		}
	}
	// the same limit where the accelerated match finders pack two literals per token (about 65534 bytes
	// of incompressible data), with runs short enough not to be re-counted by the scalar tail
	for d := -140; d <= 40; d++ {
		if !thorough() && d%2 != 0 {
			continue
		}
		for _, runLen := range []int{300, 520, 1300} {
			for _, lvl := range []int{1, 2} {
				c := C01Case{Set: WSetting{Ctor: "new", Level: lvl}}
				c.Data = gen.Recipe{Segs: []gen.Seg{{Kind: "rand", N: 65534 + d, A: 256, Seed: 21}, {Kind: "run", N: runLen, A: 0x42}, {Kind: "text", N: 40, Seed: 2}}}
				c.Ops = []gen.Op{{K: "W", N: c.Data.Len()}}
				if d%4 == 0 {
					c.Ops = []gen.Op{{K: "W", N: 100}, {K: "F"}, {K: "W", N: c.Data.Len() - 100}}
				}
				done := begin("C01", c)
				labels, nt, err := checkC01(c)
				done()
				if err != nil {
					saveLast("C01", c, err)
					t.Fatalf("C01 violated (token-limit enumeration, two literals per token): %v", err)
				}
				stats.Record("C01", stats.Digest(c), nt, append(labels, "token-limit-enumeration-2"), func() any { return c })
				tl++
			}
		}
	}
	// exact Fibonacci byte counts over k values: the deepest literal tree a block of that size can have
	// (21 for one 64 KiB Huffman-only block), so the length limiter does the most work it ever does
	for k := 14; k <= 23; k++ {
		for variant := 0; variant <= 1; variant++ {
			fa, fb, sum := 1, 1+variant, 0
			for i := 0; i < k; i++ {
				sum += fa
				fa, fb = fb, fa+fb
			}
			for _, set := range []WSetting{{Ctor: "new", Level: -2}, {Ctor: "4k", Level: -2}, {Ctor: "new", Level: 1}, {Ctor: "new", Level: 2}} {
				c := C01Case{Set: set}
				c.Data = gen.Recipe{Segs: []gen.Seg{{Kind: "fib", N: sum, A: k, B: variant, Seed: uint64(k)}}}
				c.Ops = []gen.Op{{K: "W", N: c.Data.Len()}}
				done := begin("C01", c)
				labels, nt, err := checkC01(c)
				done()
				if err != nil {
					saveLast("C01", c, err)
					t.Fatalf("C01 violated (exact Fibonacci counts over %d values): %v", k, err)
				}
				stats.Record("C01", stats.Digest(c), nt, append(labels, "fibonacci-depth-enumeration"), func() any { return c })
				tl++
			}
		}
	}
	// exact Fibonacci frequencies over k distance symbols: from 17 on the distance code needs the length limiter
	for k := 15; k <= 21; k++ {
		for _, set := range []WSetting{{Ctor: "new", Level: 1}, {Ctor: "new", Level: 2}, {Ctor: "4k", Level: 2}} {
			c := C01Case{Set: set}
			c.Data = gen.Recipe{Segs: []gen.Seg{{Kind: "distfib", N: gen.DistFibLen(k), A: k, Seed: uint64(k)}}}
			c.Ops = []gen.Op{{K: "W", N: c.Data.Len()}}
			done := begin("C01", c)
			labels, nt, err := checkC01(c)
			done()
			if err != nil {
				saveLast("C01", c, err)
				t.Fatalf("C01 violated (Fibonacci frequencies over %d distance symbols): %v", k, err)
			}
			stats.Record("C01", stats.Digest(c), nt, append(labels, "distance-depth-enumeration"), func() any { return c })
			tl++
		}
	}
	// buffer phase against token count for the 4 KiB window: k zero bytes, then incompressible data
	// (the first full block of a fresh Writer ends with every possible number of pending tokens)
	for k := 3900; k <= 4300; k++ {
		if !thorough() && k%2 != 0 {
			continue
		}
		for _, lvl := range []int{2, -1, 1} {
			c := C01Case{Set: WSetting{Ctor: "4k", Level: lvl}}
			c.Data = gen.Recipe{Segs: []gen.Seg{{Kind: "run", N: k, A: 0}, {Kind: "rand", N: 80000, A: 256, Seed: 5}}}
			c.Ops = []gen.Op{{K: "W", N: c.Data.Len()}}
			done := begin("C01", c)
			labels, nt, err := checkC01(c)
			done()
			if err != nil {
				saveLast("C01", c, err)
				t.Fatalf("C01 violated (4K-window phase sweep): %v", err)
			}
			stats.Record("C01", stats.Digest(c), nt, append(labels, "4k-phase-sweep"), func() any { return c })
			tl++
		}
	}
	stats.Exhaustive("C01", fmt.Sprintf("token-limit family: 32767+d incompressible bytes then a 1300-byte run or period-7 repeat, d in [-270,6] step %d x {new,4k} x {1,2}", step), tl)
	stats.Exhaustive("C01", fmt.Sprintf("lengths T+d, d in [-%d,%d], T in %v x {new,4k} x {-2,1,2} x {one write, split at T-1} x {text, 4-symbol random}", dmax, dmax, gen.Thresholds), count)
}

func init() {
	replayers["C01"] = func(raw json.RawMessage) error {
		var c C01Case
		if err := json.Unmarshal(raw, &c); err != nil {
			return err
		}
		_, _, err := checkC01(c)
		return err
	}
}

var _ = io.EOF
