package props

import (
	"encoding/json"
	"errors"
	"fmt"
	"io"
	"os"
	"testing"

	stdflate "compress/flate"

	fflate "github.com/intel/fastgo/compress/flate"

	"pgregory.net/rapid"

	"verifharness/gen"
	"verifharness/iox"
	"verifharness/stats"
)

// C14: a failing destination is reported, sticks, and never leads to a bad state.

type C14Case struct {
	Set     PSetting   `json:"set"`
	Data    gen.Recipe `json:"data"`
	Ops     []gen.Op   `json:"ops"`   // W/F/C and further calls (also after the failure)
	After   *History   `json:"after"` // optional: Reset(good destination) and this history, compared with a new Writer
	ErrKind int        `json:"err_kind"`
	Short   int        `json:"short"`
	OnlyK   int        `json:"only_k,omitempty"` // replay: check just this k (0 = all)
	WS      bool       `json:"ws,omitempty"`     // the destination also implements io.StringWriter (bufio.Writer, bytes.Buffer, os.File do)
	Tail    []gen.Op   `json:"tail,omitempty"`   // further calls issued only in the runs with a fault (after Ops, i.e. also after a failed Close): all must fail
}

type pathErr struct{ op string }

func (e *pathErr) Error() string { return "custom struct error: " + e.op }

// errors that closed Writers of the library and of the standard library return: a destination that is
// itself a compressor which was closed too early fails with exactly these values
var (
	errFastgoClosedWriter = func() error {
		w, _ := fflate.NewWriter(io.Discard, 1)
		w.Close()
		_, err := w.Write([]byte{1})
		return err
	}()
	errStdClosedWriter = func() error {
		w, _ := stdflate.NewWriter(io.Discard, 1)
		w.Close()
		_, err := w.Write([]byte{1})
		return err
	}()
)

func injectedErr(kind int) error {
	switch kind % 8 {
	case 7:
		return errFastgoClosedWriter
	case 6:
		return errStdClosedWriter
	case 5:
		return io.ErrShortWrite
	case 4:
		return io.EOF
	case 0:
		return errInjected
	case 1:
		return io.ErrClosedPipe
	case 2:
		return &os.PathError{Op: "write", Path: "/dev/full", Err: errors.New("no space left on device")}
	default:
		return &pathErr{"write"}
	}
}

func drawC14(t *rapid.T) C14Case {
	var c C14Case
	c.Set = drawPSetting(t, false, true)
	w := c.Set.window()
	full := 2*w + 258
	if c.Set.Level == -2 {
		full = 65536
	}
	nops := rapid.IntRange(1, 8).Draw(t, "nops")
	total := 0
	closed := false
	for i := 0; i < nops; i++ {
		switch rapid.IntRange(0, 10).Draw(t, "op") {
		case 0, 1, 2:
			c.Ops = append(c.Ops, gen.Op{K: "F"})
		case 3:
			c.Ops = append(c.Ops, gen.Op{K: "W", N: 0})
		case 4, 5:
			n := full + rapid.IntRange(-3, 300).Draw(t, "big")
			c.Ops = append(c.Ops, gen.Op{K: "W", N: n})
			total += n
		case 6:
			n := rapid.IntRange(1, 3*full).Draw(t, "any")
			c.Ops = append(c.Ops, gen.Op{K: "W", N: n})
			total += n
		case 7:
			if !closed && i > 0 {
				c.Ops = append(c.Ops, gen.Op{K: "C"})
				closed = true
				// calls after Close belong to C16; stop the history here
				i = nops
			}
		default:
			n := rapid.IntRange(1, 600).Draw(t, "small")
			c.Ops = append(c.Ops, gen.Op{K: "W", N: n})
			total += n
		}
	}
	if !closed {
		c.Ops = append(c.Ops, gen.Op{K: "C"})
	}
	capW, capAfter := 100<<10, 64<<10
	if c.Set.Level >= 7 {
		// deep hash-chain search: compress/flate drops to ~75 KB/s on low-entropy random data
		capW, capAfter = 32<<10, 16<<10
	}
	if c.Set.delegatedP() && total > capW {
		// the compressor is compress/flate's (10..20 MB/s at level 9) and every case is run once per fault
		// position: keep the case's cost bounded by scaling the writes down, not by a time limit
		scaled := 0
		for i := range c.Ops {
			if c.Ops[i].K == "W" {
				c.Ops[i].N = c.Ops[i].N * capW / total
				scaled += c.Ops[i].N
			}
		}
		total = scaled
	}
	c.Data = gen.DrawRecipeN(t, total)
	c.ErrKind = rapid.IntRange(0, 7).Draw(t, "errkind")
	c.WS = rapid.IntRange(0, 2).Draw(t, "ws") == 0
	for i, n := 0, rapid.IntRange(0, 4).Draw(t, "ntail"); i < n; i++ {
		// calls after the last regular one (a Close): in a run with a fault that Close has failed
		c.Tail = append(c.Tail, rapid.SampledFrom([]gen.Op{{K: "W", N: 0}, {K: "W", N: 7}, {K: "F"}, {K: "C"}, {K: "C"}}).Draw(t, "tailop"))
	}
	c.Short = rapid.SampledFrom([]int{0, 0, 1, 7, 100, 5000, -1}).Draw(t, "short")
	if c.Set.Pkg == "gzip" && rapid.Bool().Draw(t, "gzhdr") {
		// header strings and extra data are separate destination calls: faults can land between them
		c.Set.Hdr = &GzHdr{Name: rapid.StringMatching(`[a-z¡-ÿ]{1,12}`).Draw(t, "name"), Comment: rapid.StringMatching(`[a-z ¡-ÿ]{1,12}`).Draw(t, "comment")}
		if rapid.Bool().Draw(t, "gzextra") {
			c.Set.Hdr.HasX = true
			c.Set.Hdr.Extra = []byte(rapid.StringMatching(`[a-z]{0,9}`).Draw(t, "extra"))
		}
	}
	if rapid.IntRange(0, 2).Draw(t, "reset") == 0 {
		h := drawHistory(t, c.Set, "after", false)
		h.Hdr = nil
		if n := h.Data.Len(); c.Set.delegatedP() && n > capAfter {
			// same cost bound for the history replayed after every fault position
			scaled := 0
			for i := range h.Ops {
				if h.Ops[i].K == "W" {
					h.Ops[i].N = h.Ops[i].N * capAfter / n
					scaled += h.Ops[i].N
				}
			}
			h.Data = gen.DrawRecipeN(t, scaled)
		}
		c.After = &h
	}
	return c
}

// run one fault position; k == 0 means no fault.
func c14Run(c C14Case, data []byte, k int, ferr error) (res []OpResult, sink *iox.Sink, guard func() error, w anyWriter, err error) {
	sink = &iox.Sink{FailAt: k, FailErr: ferr, Short: c.Short}
	var dst io.Writer = sink
	if c.WS {
		dst = iox.StringSink{Sink: sink}
	}
	w, err = newAnyWriter(dst, c.Set)
	if err != nil {
		return nil, nil, nil, nil, err
	}
	if fw, ok := w.(*fflate.Writer); ok {
		guard = fw.VerifGuard()
	}
	// after the failing call the remaining ops are still issued: they must all fail
	ops := c.Ops
	if k > 0 && len(c.Tail) > 0 {
		ops = append(append([]gen.Op(nil), c.Ops...), c.Tail...)
		data = append(append([]byte(nil), data...), []byte("bytes written after the failure: must be refused...............")...)
	}
	res, _ = runOps(w, sink, data, ops, nil)
	return res, sink, guard, w, nil
}

func checkC14(c C14Case, record func(k int, nontrivial bool, labels []string)) (err error) {
	defer guardPanic(&err)
	data := c.Data.Bytes()
	dict := c.Set.dictBytes()
	// fault-free run: learn the number of destination calls
	want := injectedErr(c.ErrKind)
	res0, sink0, guard0, _, err := c14Run(c, data, 0, want)
	if err != nil {
		return err
	}
	for i, r := range res0 {
		if r.Panic != "" {
			return fmt.Errorf("fault-free run: call %d (%s) panicked: %s", i, r.K, r.Panic)
		}
		if r.Err != nil || (r.K == "W" && r.RetN != r.N) {
			return fmt.Errorf("fault-free run: call %d (%s %d) = (%d, %v)", i, r.K, r.N, r.RetN, r.Err)
		}
	}
	if guard0 != nil {
		if e := guard0(); e != nil {
			return fmt.Errorf("fault-free run: %v", e)
		}
	}
	// conversely: every call returned nil => complete valid stream of all the data
	stdBroken := c.Set.Ctor == "dict" && knownActive("std-dict-stored-first-block") && stdDictRoundTripBroken(c.Set.Level, dict, data, c.Ops[:len(c.Ops)-1])
	if !stdBroken {
		if e := checkCompleteContainer(c.Set.Pkg, sink0.Bytes(), data, dict); e != nil {
			return fmt.Errorf("fault-free run (every call returned nil): %v", e)
		}
	}
	N := sink0.NCalls
	var ks []int
	if c.OnlyK > 0 {
		ks = []int{c.OnlyK}
	} else if N <= 64 && !(c.Set.delegatedP() && len(data) > 16<<10) {
		for k := 1; k <= N; k++ {
			ks = append(ks, k)
		}
	} else {
		// stratified: first, last, around every op boundary, and a stride
		seen := map[int]bool{}
		add := func(k int) {
			if k >= 1 && k <= N && !seen[k] {
				seen[k] = true
				ks = append(ks, k)
			}
		}
		add(1)
		add(2)
		add(N)
		add(N - 1)
		cum := 0
		for _, r := range res0 {
			add(cum + 1)
			cum += r.Calls
			add(cum)
		}
		stride := N/40 + 1
		if c.Set.delegatedP() {
			// compress/flate's compressor: fewer positions for large inputs (cost bound, see drawC14)
			stride = N/6 + 1
		}
		for k := 3; k <= N; k += stride {
			add(k)
		}
	}
	for _, k := range ks {
		res, sink, guard, w, err := c14Run(c, data, k, want)
		if err != nil {
			return err
		}
		// which op contains destination call k (from the fault-free run)?
		cum, failOp := 0, -1
		for i, r := range res0 {
			if k > cum && k <= cum+r.Calls {
				failOp = i
				break
			}
			cum += r.Calls
		}
		if failOp < 0 {
			return fmt.Errorf("harness: call %d not located", k)
		}
		for i, r := range res {
			if r.Panic != "" {
				return fmt.Errorf("destination fails at call %d (during op %d %s): op %d (%s) panicked: %s", k, failOp, res0[failOp].K, i, r.K, r.Panic)
			}
			switch {
			case i < failOp:
				if r.Err != nil {
					return fmt.Errorf("destination fails at call %d: op %d (%s) before the failure returned %v", k, i, r.K, r.Err)
				}
			case i == failOp:
				if r.Err == nil {
					return fmt.Errorf("destination fails at call %d during op %d (%s %d), but the operation returned nil", k, i, r.K, r.N)
				}
				if r.Err != want && !errors.Is(r.Err, want) {
					return fmt.Errorf("destination fails at call %d during op %d (%s): operation returned %q, not the destination's error %q", k, i, r.K, r.Err, want)
				}
			default:
				if r.Err == nil {
					return fmt.Errorf("destination failed at call %d (op %d %s); later op %d (%s %d) returned nil instead of failing", k, failOp, res0[failOp].K, i, r.K, r.N)
				}
			}
		}
		if sink.AfterFail != 0 {
			return fmt.Errorf("destination failed at call %d (op %d %s); the Writer called it %d more time(s) afterwards", k, failOp, res0[failOp].K, sink.AfterFail)
		}
		if guard != nil {
			if e := guard(); e != nil {
				return fmt.Errorf("destination fails at call %d: %v", k, e)
			}
		}
		if c.After != nil {
			h := *c.After
			d2 := h.Data.Bytes()
			s2 := &iox.Sink{}
			w.Reset(s2)
			setHdr(w, c.Set.Hdr) // Reset clears gzip header fields; the new Writer below is constructed with them
			got, _ := runOps(w, s2, d2, h.Ops, nil)
			s3 := &iox.Sink{}
			fresh, err := newAnyWriter(s3, c.Set)
			if err != nil {
				return err
			}
			wantT, _ := runOps(fresh, s3, d2, h.Ops, nil)
			if e := sameTranscript(got, wantT); e != nil {
				return fmt.Errorf("destination failed at call %d, then Reset(good destination): %v", k, e)
			}
			if guard != nil {
				if e := guard(); e != nil {
					return fmt.Errorf("after Reset following a failure at call %d: %v", k, e)
				}
			}
		}
		if record != nil {
			labels := []string{"setting:" + c.Set.String(), "fails-during:" + res0[failOp].K}
			if c.After != nil {
				labels = append(labels, "reset-after-failure")
			}
			if c.Short > 0 {
				labels = append(labels, "short-write")
			}
			if c.Short < 0 {
				labels = append(labels, "full-count-with-error")
			}
			if c.Set.Hdr != nil {
				labels = append(labels, "gzip-header-fields")
			}
			record(k, res0[failOp].K != "W" || k > 1, labels)
		}
	}
	return nil
}

func TestC14(t *testing.T) {
	rapid.Check(t, func(t *rapid.T) {
		c := drawC14(t)
		done := begin("C14", c)
		defer done()
		d := stats.Digest(c)
		err := checkC14(c, func(k int, nt bool, labels []string) {
			stats.Record("C14", d*31+uint64(k), nt && !c.Set.delegatedP(), labels, func() any { cc := c; cc.OnlyK = k; return cc })
		})
		if err != nil {
			saveLast("C14", c, err)
			t.Fatalf("C14 violated: %v", err)
		}
	})
}

func init() {
	replayers["C14"] = func(raw json.RawMessage) error {
		var c C14Case
		if err := json.Unmarshal(raw, &c); err != nil {
			return err
		}
		c.OnlyK = 0
		return checkC14(c, nil)
	}
}
