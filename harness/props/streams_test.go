package props

import (
	"bytes"
	stdflate "compress/flate"
	"fmt"

	"pgregory.net/rapid"

	"verifharness/gen"
	"verifharness/refinflate"
	"verifharness/synth"
)

// Mutation is a byte-level change applied to a built stream.
type Mutation struct {
	Kind string `json:"k"` // flip | sub | ins | del | trunc
	Pos  int    `json:"p"` // byte position (flip: bit position)
	Val  int    `json:"v,omitempty"`
}

// StreamSpec describes compressed input compactly.
type StreamSpec struct {
	Kind  string        `json:"kind"` // synth | std | fast | raw
	Synth *synth.Stream `json:"synth,omitempty"`
	Data  *gen.Recipe   `json:"data,omitempty"`
	Set   *WSetting     `json:"set,omitempty"`
	Ops   []gen.Op      `json:"ops,omitempty"`
	Raw   []byte        `json:"raw,omitempty"`
	Mut   []Mutation    `json:"mut,omitempty"`
	// Shift 1..7 (kinds std/fast): the encoder's stream does not start at a byte boundary: it is
	// preceded by non-final fixed-Huffman blocks (empty ones of 10 bits, and one holding the single
	// literal 0xC8 of 19 bits) whose total length is Shift modulo 8
	Shift int `json:"shift,omitempty"`
	// Tail > 0 (kind std): the last Tail bytes of the data are not given to the Writer; it is flushed
	// instead of closed and the harness appends them as a FINAL STORED block (a shape no Writer emits)
	Tail int `json:"tail,omitempty"`
}

// shiftPrefix returns the prefix blocks for a bit shift of k (1..7): their bits (LSB first), the
// number of bits, and the bytes they decode to.
func shiftPrefix(k int) (bits uint64, n uint, out []byte) {
	put := func(v uint64, w uint) {
		bits |= v << n
		n += w
	}
	empty := func() { put(0b010, 3); put(0, 7) } // BFINAL=0, BTYPE=01 (LSB first: 0,1,0), end-of-block 0000000
	lit := func() {
		put(0b010, 3)
		// literal 0xC8 = 200: fixed code 110010000+ (200-144) = 0b110010000 + 56 = 9 bits, written MSB first
		code := uint64(0b110010000 + 200 - 144)
		for i := 8; i >= 0; i-- {
			put(code>>uint(i)&1, 1)
		}
		put(0, 7)
		out = append(out, 0xC8)
	}
	// 10a + 19b = k (mod 8): b = k&1 (19 is odd), then a from the even remainder
	if k&1 == 1 {
		lit()
	}
	for n%8 != uint(k) {
		empty()
	}
	return
}

// shiftStream puts prefix blocks of k bits (mod 8) in front of the stream z.
func shiftStream(z []byte, k int) (shifted []byte, prefixOut []byte, prefixBits uint) {
	bits, n, out := shiftPrefix(k)
	acc, nacc := bits, n
	var res []byte
	for nacc >= 8 {
		res = append(res, byte(acc))
		acc >>= 8
		nacc -= 8
	}
	for _, b := range z {
		acc |= uint64(b) << nacc
		res = append(res, byte(acc))
		acc >>= 8
	}
	if nacc > 0 {
		res = append(res, byte(acc))
	}
	return res, out, n
}

// Build returns the stream bytes and, when known by construction, the bytes it encodes.
func (s StreamSpec) Build() (z []byte, expected []byte, known bool, err error) {
	switch s.Kind {
	case "synth":
		b := s.Synth.Build()
		z, expected, known = b.Bytes, b.Expected, s.Synth.Fault == nil || !b.FaultDone
	case "std":
		data := s.Data.Bytes()
		var buf bytes.Buffer
		w, e := stdflate.NewWriter(&buf, s.Set.Level)
		if e != nil {
			return nil, nil, false, e
		}
		tail := s.Tail
		if tail < 0 || tail > len(data) || tail > 65535 {
			tail = 0
		}
		body := data[:len(data)-tail]
		off := 0
		for _, op := range s.Ops {
			switch op.K {
			case "W":
				end := off + op.N
				if end > len(body) {
					end = len(body)
				}
				if off < end {
					w.Write(body[off:end])
				}
				off = end
			case "F":
				w.Flush()
			}
		}
		if tail > 0 {
			w.Flush()
			buf.Write([]byte{1, byte(tail), byte(tail >> 8), ^byte(tail), ^byte(tail >> 8)})
			buf.Write(data[len(data)-tail:])
		} else {
			w.Close()
		}
		z, expected, known = buf.Bytes(), data, true
	case "fast":
		data := s.Data.Bytes()
		z, err = runWriterOps(*s.Set, data, s.Ops)
		if err != nil {
			return nil, nil, false, fmt.Errorf("building input with fastgo's Writer: %v", err)
		}
		expected, known = data, true
	default:
		z = append([]byte(nil), s.Raw...)
	}
	if s.Shift > 0 && s.Shift < 8 && (s.Kind == "std" || s.Kind == "fast") {
		// a stored block (sync markers included) pads to a byte boundary of the stream it was written
		// into, so only streams made of Huffman blocks alone can be moved to another bit position
		ref := refinflate.Inflate(z, refinflate.Options{})
		movable := ref.Verdict == refinflate.Valid
		for _, b := range ref.Blocks {
			if b.Type == 0 {
				movable = false
			}
		}
		if movable {
			var pre []byte
			var nbits uint
			z, pre, nbits = shiftStream(z, s.Shift)
			// the moved stream ends where its last bit is: a byte of nothing but the old padding is not part of it
			if end := (int64(nbits) + ref.EndBit + 7) / 8; int(end) < len(z) {
				z = z[:end]
			}
			expected = append(pre, expected...)
		}
	}
	if len(s.Mut) > 0 {
		z = append([]byte(nil), z...)
		known = false
		for _, m := range s.Mut {
			switch m.Kind {
			case "flip":
				if len(z) > 0 {
					p := m.Pos % (len(z) * 8)
					z[p/8] ^= 1 << uint(p%8)
				}
			case "sub":
				if len(z) > 0 {
					z[m.Pos%len(z)] = byte(m.Val)
				}
			case "ins":
				p := m.Pos % (len(z) + 1)
				z = append(z[:p], append([]byte{byte(m.Val)}, z[p:]...)...)
			case "del":
				if len(z) > 0 {
					p := m.Pos % len(z)
					z = append(z[:p], z[p+1:]...)
				}
			case "trunchdr":
				// cut inside (or just past) the header of the first dynamic block; Pos is in permille of that span
				if len(z) > 0 {
					r := refinflate.Inflate(z, refinflate.Options{Permissive: true})
					span := 0
					for _, b := range r.Blocks {
						if b.Type == 2 {
							if b.HeaderEndBit > 0 {
								span = int(b.HeaderEndBit/8) + 2
							} else {
								span = int(b.StartBit/8) + 120
							}
							break
						}
					}
					if span == 0 || span > len(z) {
						span = len(z)
						if span > 120 {
							span = 120
						}
					}
					z = z[:m.Pos*span/1000]
				}
			case "trunc":
				if len(z) > 0 {
					if m.Pos < 0 {
						// counted back from the end
						c := len(z) + m.Pos
						if c < 0 {
							c = 0
						}
						z = z[:c]
					} else {
						z = z[:m.Pos%len(z)]
					}
				}
			}
		}
	}
	return z, expected, known, nil
}

func drawBlock(t *rapid.T, big bool) synth.BlockSpec {
	var b synth.BlockSpec
	b.Type = rapid.SampledFrom([]int{0, 1, 2, 2, 2}).Draw(t, "btype")
	b.Seed = rapid.Uint64Range(0, 1<<16).Draw(t, "bseed")
	switch rapid.IntRange(0, 9).Draw(t, "bsize") {
	case 0:
		b.N = 0
	case 1:
		b.N = rapid.IntRange(1, 4).Draw(t, "bn")
	case 2, 3, 4, 5:
		b.N = rapid.IntRange(1, 300).Draw(t, "bn")
	case 6, 7:
		b.N = rapid.IntRange(300, 4000).Draw(t, "bn")
	default:
		if big {
			b.N = rapid.IntRange(4000, 70000).Draw(t, "bn")
		} else {
			b.N = rapid.IntRange(300, 4000).Draw(t, "bn")
		}
	}
	if b.Type == 0 {
		if rapid.IntRange(0, 9).Draw(t, "stmax") == 0 {
			b.N = 65535
		}
		b.Alpha = rapid.SampledFrom([]int{1, 4, 256}).Draw(t, "alpha")
		return b
	}
	b.Alpha = rapid.SampledFrom([]int{1, 2, 16, 64, 256, 256}).Draw(t, "alpha")
	b.MatchPct = rapid.SampledFrom([]int{0, 0, 5, 30, 70, 100}).Draw(t, "matchpct")
	b.DistMode = rapid.IntRange(0, 5).Draw(t, "distmode")
	b.LenMode = rapid.IntRange(0, 3).Draw(t, "lenmode")
	if b.Type == 2 {
		b.Chain = rapid.SampledFrom([]int{0, 0, 30, 70, 95, 100}).Draw(t, "chain")
		b.ExtraLit = rapid.SampledFrom([]int{0, 0, 1, 5, 40, 286}).Draw(t, "xlit")
		b.ExtraDist = rapid.SampledFrom([]int{0, 0, 1, 3, 30}).Draw(t, "xdist")
		b.DistCode = rapid.IntRange(0, 2).Draw(t, "distcode")
		b.PadLit = rapid.SampledFrom([]int{0, 0, 1, 5, 29}).Draw(t, "padlit")
		b.PadDist = rapid.SampledFrom([]int{0, 0, 1, 5, 29}).Draw(t, "paddist")
		b.RLE = rapid.IntRange(0, 2).Draw(t, "rle")
		b.FullHCLEN = rapid.IntRange(0, 3).Draw(t, "fullhclen") == 0
		b.ExtraCL = rapid.SampledFrom([]int{0, 0, 1, 4, 19}).Draw(t, "xcl")
		b.FreqSort = rapid.Bool().Draw(t, "freqsort")
		b.Fork = rapid.SampledFrom([]int{0, 0, 0, 3, 6, 8, 9, 10, 11, 12, 13}).Draw(t, "fork")
		b.Alt258 = rapid.IntRange(0, 3).Draw(t, "alt258") == 0
	}
	return b
}

// drawSynth draws a valid synthesised stream.
func drawSynth(t *rapid.T) *synth.Stream {
	s := &synth.Stream{}
	mode := rapid.IntRange(0, 9).Draw(t, "smode")
	switch {
	case mode == 0:
		// many tiny blocks
		b := drawBlock(t, false)
		b.N = rapid.IntRange(0, 3).Draw(t, "tinyn")
		b.Rep = rapid.IntRange(100, 1500).Draw(t, "rep")
		s.Blocks = append(s.Blocks, b)
		s.Blocks = append(s.Blocks, drawBlock(t, false))
	case mode == 1:
		// output well beyond 64 KiB: history wrap
		nb := rapid.IntRange(1, 4).Draw(t, "nblocks")
		for i := 0; i < nb; i++ {
			b := drawBlock(t, true)
			if b.Type != 0 && b.N < 2000 {
				b.N = rapid.IntRange(2000, 40000).Draw(t, "bign")
			}
			s.Blocks = append(s.Blocks, b)
		}
	default:
		nb := rapid.IntRange(1, 6).Draw(t, "nblocks")
		for i := 0; i < nb; i++ {
			s.Blocks = append(s.Blocks, drawBlock(t, mode == 2))
		}
	}
	// the padding bits before a stored block's LEN and after the final block are unspecified: mostly
	// zero as every encoder writes them, sometimes random
	s.PadBits = rapid.IntRange(0, 4).Draw(t, "padbits") == 0
	return s
}

func drawEncoded(t *rapid.T, kind string, max int) StreamSpec {
	var s StreamSpec
	s.Kind = kind
	var set WSetting
	if kind == "std" {
		set = WSetting{Ctor: "new", Level: rapid.IntRange(-2, 9).Draw(t, "elevel")}
	} else {
		set = WSetting{Ctor: rapid.SampledFrom([]string{"new", "4k"}).Draw(t, "ector"), Level: rapid.SampledFrom([]int{-2, -1, 1, 2}).Draw(t, "elevel")}
	}
	s.Set = &set
	r := gen.DrawRecipe(t, max)
	s.Data = &r
	s.Ops = gen.DrawWriteOps(t, r.Len(), true)
	if rapid.IntRange(0, 2).Draw(t, "shifted") == 0 {
		s.Shift = rapid.IntRange(1, 7).Draw(t, "shift")
	}
	return s
}

// drawValidStream draws a stream that is valid by construction.
func drawValidStream(t *rapid.T, max int) StreamSpec {
	switch rapid.IntRange(0, 10).Draw(t, "skind") {
	case 10:
		return StreamSpec{Kind: "raw", Raw: longHeaderStream(rapid.Uint64().Draw(t, "lhseed"), rapid.IntRange(0, 3).Draw(t, "lhblocks"), rapid.IntRange(0, 120).Draw(t, "lhpayload"))}
	case 0, 1:
		return drawEncoded(t, "std", max)
	case 2, 3:
		return drawEncoded(t, "fast", max)
	default:
		return StreamSpec{Kind: "synth", Synth: drawSynth(t)}
	}
}

var faultKinds = []string{synth.FDistTooFar, synth.FDistTooFar, synth.FIncompleteDist, synth.FIncompleteDist, synth.FUnassignedDist, synth.FNoDistCode, synth.FOverLit, synth.FOverDist, synth.FOverCL,
	synth.FIncompleteLit, synth.FMissingEOB, synth.FRepeatFirst, synth.FRunPast, synth.FStoredLen, synth.FReserved, synth.FBadLenSym, synth.FBadDistSym, synth.FHLIT,
	synth.FRawDistLens, synth.FRawDistLens, synth.FRawLitLens, synth.FRawLitLens, synth.FHDIST, synth.FRunPast}

// drawFaultyStream draws a synthesised stream with one injected fault.
func drawFaultyStream(t *rapid.T) StreamSpec {
	s := drawSynth(t)
	f := &synth.Fault{Kind: rapid.SampledFrom(faultKinds).Draw(t, "fault")}
	f.Block = rapid.IntRange(0, len(s.Blocks)-1).Draw(t, "fblock")
	f.At = rapid.IntRange(0, 3000).Draw(t, "fat")
	if rapid.Bool().Draw(t, "fat0") {
		f.At = rapid.IntRange(0, 3).Draw(t, "fatsmall")
	}
	f.Arg = rapid.SampledFrom([]int{0, 0, 1, 2, 7, 100, 30000}).Draw(t, "farg")
	if f.Kind == synth.FIncompleteDist && f.Block > 0 {
		// the block before gets a deep complete distance code (what a stale table would hold)
		p := &s.Blocks[f.Block-1]
		p.Type, p.ExtraDist, p.DistCode, p.Fork, p.Rep = 2, 30, 2, 12, 0
		if p.N < 50 {
			p.N = 50
		}
		if p.MatchPct < 30 {
			p.MatchPct = 30
		}
	}
	if f.Kind == synth.FRunPast {
		// which run symbol overshoots (18 / 17 / 16), with which extra bits, and whether the item list is cut first
		f.Arg = rapid.IntRange(0, 767).Draw(t, "runpast")
		f.At = rapid.IntRange(1, 300).Draw(t, "runpastcut")
	}
	if f.Kind == synth.FRawLitLens {
		// any multiset of literal/length code lengths (complete, incomplete, over-subscribed): long codes
		// spread over many short prefixes stress the size of the decoder's long-code table
		lo := rapid.SampledFrom([]int{1, 7, 10, 12, 12, 13}).Draw(t, "rawlo")
		n := rapid.SampledFrom([]int{3, 30, 257, 286, 286}).Draw(t, "rawn")
		zeroEvery := rapid.SampledFrom([]int{0, 2, 10}).Draw(t, "rawzero")
		for i := 0; i < n; i++ {
			l := rapid.IntRange(lo, 15).Draw(t, "rawlen")
			if zeroEvery > 0 && rapid.IntRange(0, zeroEvery).Draw(t, "rawz") == 0 {
				l = 0
			}
			f.Lens = append(f.Lens, l)
		}
	}
	if f.Kind == synth.FRawDistLens {
		// any multiset of distance code lengths (complete, incomplete, over-subscribed), mostly long codes:
		// the decoder's table construction must cope with every shape the header syntax can express
		lo := rapid.SampledFrom([]int{1, 6, 9, 11, 11, 13}).Draw(t, "rawlo")
		n := rapid.IntRange(1, 30).Draw(t, "rawn")
		for i := 0; i < n; i++ {
			l := rapid.IntRange(lo, 15).Draw(t, "rawlen")
			if rapid.IntRange(0, 9).Draw(t, "rawzero") == 0 {
				l = 0
			}
			f.Lens = append(f.Lens, l)
		}
	}
	s.Fault = f
	s.Tail = rapid.SampledFrom([]int{0, 8, 100, 600, 600, 5000}).Draw(t, "tail")
	return StreamSpec{Kind: "synth", Synth: s}
}

func drawMutations(t *rapid.T) []Mutation {
	n := rapid.SampledFrom([]int{1, 1, 1, 2, 3}).Draw(t, "nmut")
	var ms []Mutation
	for i := 0; i < n; i++ {
		ms = append(ms, Mutation{Kind: rapid.SampledFrom([]string{"flip", "flip", "sub", "ins", "del", "trunc"}).Draw(t, "mkind"),
			Pos: rapid.IntRange(0, 1<<20).Draw(t, "mpos"), Val: rapid.IntRange(0, 255).Draw(t, "mval")})
	}
	return ms
}

// drawReadSizes draws a cyclic sequence of destination buffer sizes (>= 1).
func drawReadSizes(t *rapid.T) []int {
	switch rapid.IntRange(0, 5).Draw(t, "rsmode") {
	case 0:
		return []int{rapid.SampledFrom([]int{1, 2, 3, 7}).Draw(t, "rs")}
	case 1:
		return []int{rapid.SampledFrom([]int{255, 256, 257, 258, 259}).Draw(t, "rs")}
	case 2:
		return []int{rapid.SampledFrom([]int{4096, 32768, 65536, 1 << 20}).Draw(t, "rs")}
	default:
		n := rapid.IntRange(1, 5).Draw(t, "nrs")
		var out []int
		for i := 0; i < n; i++ {
			out = append(out, rapid.SampledFrom([]int{1, 2, 3, 7, 100, 255, 258, 259, 1000, 4096, 5000, 65536}).Draw(t, "rs"))
		}
		return out
	}
}

func genText(n int, seed uint64) gen.Recipe {
	return gen.Recipe{Segs: []gen.Seg{{Kind: "text", N: n, Seed: seed}}}
}

// opsOneWriteFlushMid: write half, flush, write the rest.
func opsOneWriteFlushMid(n int) []gen.Op {
	return []gen.Op{{K: "W", N: n / 2}, {K: "F"}, {K: "W", N: n - n/2}}
}

// smallStream returns the i-th of a fixed family of small valid streams.
func smallStream(i int) StreamSpec {
	var s StreamSpec
	seed := uint64(i)
	switch i % 4 {
	case 0:
		s = StreamSpec{Kind: "synth", Synth: &synth.Stream{Blocks: []synth.BlockSpec{
			{Type: 2, N: 40 + i, Seed: seed, Alpha: 16, MatchPct: 30, Chain: (i * 13) % 101, ExtraLit: i % 7, RLE: i % 3, FreqSort: i%2 == 0},
			{Type: 0, N: i % 20, Seed: seed},
			{Type: 1, N: 30, Seed: seed, Alpha: 256, MatchPct: 50},
		}}}
	case 1:
		s = StreamSpec{Kind: "synth", Synth: &synth.Stream{Blocks: []synth.BlockSpec{
			{Type: 1, N: 10, Seed: seed, Alpha: 4},
			{Type: 2, N: 100 + 3*i, Seed: seed, Alpha: 256, MatchPct: 10, Chain: 95, ExtraLit: 286, ExtraDist: 30, DistCode: 2, RLE: 2, PadLit: i % 5, FullHCLEN: true},
		}}}
	case 2:
		r := genText(200+7*i, seed)
		set := WSetting{Ctor: "new", Level: []int{1, 2, -2, 6}[(i/4)%4]}
		s = StreamSpec{Kind: "std", Data: &r, Set: &set, Ops: opsOneWriteFlushMid(r.Len())}
	default:
		r := genText(150+11*i, seed)
		set := WSetting{Ctor: []string{"new", "4k"}[(i/4)%2], Level: []int{1, 2, -2, -1}[(i/8)%4]}
		s = StreamSpec{Kind: "fast", Data: &r, Set: &set, Ops: opsOneWriteFlushMid(r.Len())}
	}
	return s
}


// longHeaderStream hand-builds dynamic blocks whose headers are (nearly) as long as DEFLATE allows: HLIT=286,
// HDIST=30, HCLEN=19, every one of the 316 code lengths sent as its own 6- or 7-bit code-length symbol (no
// run-length symbols), 280..286 bytes per header. No compressor emits this (they choose the code-length code
// by frequency), and the synthesiser's Huffman-built code-length code gives frequent lengths short codes.
// pre non-final blocks of that shape come before the final one; every block holds npay literals.
func longHeaderStream(seed uint64, pre, npay int) []byte {
	rnd := func() uint64 { seed = seed*6364136223846793005 + 1442695040888963407; return seed >> 33 }
	var out []byte
	var acc uint64
	var nacc uint
	bits := func(v uint32, n uint) {
		acc |= uint64(v) << nacc
		nacc += n
		for nacc >= 8 {
			out = append(out, byte(acc))
			acc >>= 8
			nacc -= 8
		}
	}
	huff := func(code uint32, n uint) {
		for i := int(n) - 1; i >= 0; i-- {
			bits((code>>uint(i))&1, 1)
		}
	}
	canon := func(lens []int) []uint32 {
		codes := make([]uint32, len(lens))
		code := uint32(0)
		for l := 1; l <= 15; l++ {
			for s, sl := range lens {
				if sl == l {
					codes[s] = code
					code++
				}
			}
			code <<= 1
		}
		return codes
	}
	for b := 0; b <= pre; b++ {
		// code-length code: lengths 1,2,3,4,5 on symbols the body never uses, 7,7,7,7 on the four it does
		// (Kraft sum exactly 1); variant: 1,2,3,4,6,6 + 7,7 ... kept to the one complete shape, symbols permuted
		cl := make([]int, 19)
		unused := []int{0, 18, 17, 16, 7, 1, 2, 3, 6, 10, 11, 12, 13, 14, 15}
		for i := 0; i < 5; i++ {
			j := i + int(rnd()%uint64(len(unused)-i))
			unused[i], unused[j] = unused[j], unused[i]
			cl[unused[i]] = i + 1
		}
		cl[4], cl[5], cl[8], cl[9] = 7, 7, 7, 7
		clc := canon(cl)
		// lit/len: 226 codes of 8 bits and 60 of 9 (complete), positions shuffled; distance: 2 of 4 bits, 28 of 5
		lit := make([]int, 286)
		for i := range lit {
			lit[i] = 8
			if i >= 226 {
				lit[i] = 9
			}
		}
		for i := len(lit) - 1; i > 0; i-- {
			j := int(rnd() % uint64(i+1))
			lit[i], lit[j] = lit[j], lit[i]
		}
		dist := make([]int, 30)
		for i := range dist {
			dist[i] = 5
		}
		dist[rnd()%15], dist[15+rnd()%15] = 4, 4
		litc := canon(lit)
		final := uint32(0)
		if b == pre {
			final = 1
		}
		bits(final, 1)
		bits(2, 2)
		bits(29, 5)
		bits(29, 5)
		bits(15, 4)
		for _, s := range []int{16, 17, 18, 0, 8, 7, 9, 6, 10, 5, 11, 4, 12, 3, 13, 2, 14, 1, 15} {
			bits(uint32(cl[s]), 3)
		}
		for _, l := range lit {
			huff(clc[l], uint(cl[l]))
		}
		for _, l := range dist {
			huff(clc[l], uint(cl[l]))
		}
		for i := 0; i < npay; i++ {
			c := int(rnd() % 256)
			huff(litc[c], uint(lit[c]))
		}
		huff(litc[256], uint(lit[256]))
	}
	if nacc > 0 {
		out = append(out, byte(acc))
	}
	return out
}
