package props

import (
	"bytes"
	stdflate "compress/flate"
	stdgzip "compress/gzip"
	stdzlib "compress/zlib"
	"fmt"
	"io"
	"time"

	fgzip "github.com/intel/fastgo/compress/gzip"
	fzlib "github.com/intel/fastgo/compress/zlib"

	"pgregory.net/rapid"

	"verifharness/gen"
	"verifharness/iox"
	"verifharness/refinflate"
)

// GzHdr holds gzip header fields of a case (strings are UTF-8 of Latin-1 text).
type GzHdr struct {
	Name    string `json:"name,omitempty"`
	Comment string `json:"comment,omitempty"`
	Extra   []byte `json:"extra,omitempty"`
	HasX    bool   `json:"hasx,omitempty"` // Extra non-nil (possibly empty)
	MTime   int64  `json:"mtime,omitempty"`
	OS      byte   `json:"os,omitempty"`
}

// PSetting = package + writer setting.
type PSetting struct {
	Pkg string `json:"pkg"` // flate | gzip | zlib
	WSetting
	Hdr *GzHdr `json:"hdr,omitempty"`
}

func (p PSetting) String() string { return p.Pkg + "/" + p.WSetting.String() }

// delegatedP: is the DEFLATE layer served by compress/flate?
func (p PSetting) delegatedP() bool { return p.WSetting.delegated() }

type anyWriter interface {
	Write([]byte) (int, error)
	Flush() error
	Close() error
	Reset(io.Writer)
}

func applyHdr(h *GzHdr, name, comment *string, extra *[]byte, mt *time.Time, osb *byte) {
	if h == nil {
		return
	}
	*name, *comment = h.Name, h.Comment
	if h.HasX {
		*extra = h.Extra
		if *extra == nil {
			*extra = []byte{}
		}
	}
	if h.MTime != 0 {
		*mt = time.Unix(h.MTime, 0)
	}
	*osb = h.OS
}

// newAnyWriter builds the fastgo Writer for a setting.
func newAnyWriter(dst io.Writer, s PSetting) (anyWriter, error) {
	return newAnyWriterDict(dst, s, s.dictBytes())
}

// newAnyWriterDict: as newAnyWriter, with the dictionary (if the setting has one) in a buffer the caller keeps.
func newAnyWriterDict(dst io.Writer, s PSetting, dict []byte) (anyWriter, error) {
	switch s.Pkg {
	case "gzip":
		w, err := fgzip.NewWriterLevel(dst, s.Level)
		if s.Level == -1 {
			// the default level through the constructor most programs call
			w, err = fgzip.NewWriter(dst), nil
		}
		if err != nil {
			return nil, err
		}
		if s.Hdr != nil {
			applyHdr(s.Hdr, &w.Name, &w.Comment, &w.Extra, &w.ModTime, &w.OS)
		}
		return w, nil
	case "zlib":
		if s.Level == -1 && dict == nil {
			return fzlib.NewWriter(dst), nil
		}
		w, err := fzlib.NewWriterLevelDict(dst, s.Level, dict)
		if err != nil {
			return nil, err
		}
		return w, nil
	default:
		w, err := newFlateWriterDict(dst, s.WSetting, dict)
		if err != nil {
			return nil, err
		}
		return w, nil
	}
}

// newStdWriter builds the standard library's twin (the 4K constructor has no twin
// with the same window, but the same error/emission behaviour: plain NewWriter).
func newStdWriter(dst io.Writer, s PSetting) (anyWriter, error) {
	switch s.Pkg {
	case "gzip":
		w, err := stdgzip.NewWriterLevel(dst, s.Level)
		if err != nil {
			return nil, err
		}
		if s.Hdr != nil {
			applyHdr(s.Hdr, &w.Name, &w.Comment, &w.Extra, &w.ModTime, &w.OS)
		}
		return w, nil
	case "zlib":
		w, err := stdzlib.NewWriterLevelDict(dst, s.Level, s.dictBytes())
		if err != nil {
			return nil, err
		}
		return w, nil
	default:
		var w *stdflate.Writer
		var err error
		if s.Ctor == "dict" {
			w, err = stdflate.NewWriterDict(dst, s.Level, s.dictBytes())
		} else {
			w, err = stdflate.NewWriter(dst, s.Level)
		}
		if err != nil {
			return nil, err
		}
		return w, nil
	}
}

// drawPSetting draws a package setting. accelOnly restricts to levels served by
// fastgo's own compressors.
func drawPSetting(t *rapid.T, accelOnly bool, withDict bool) PSetting {
	var s PSetting
	s.Pkg = rapid.SampledFrom([]string{"flate", "flate", "gzip", "zlib"}).Draw(t, "pkg")
	if accelOnly {
		s.Level = rapid.SampledFrom([]int{-2, -1, 1, 2}).Draw(t, "level")
	} else {
		s.Level = rapid.SampledFrom([]int{-2, -2, -1, -1, 1, 1, 2, 2, 0, 3, 6, 9}).Draw(t, "level")
	}
	s.Ctor = "new"
	if s.Pkg == "flate" {
		s.Ctor = rapid.SampledFrom([]string{"new", "new", "4k"}).Draw(t, "ctor")
		if accelOnly && s.Ctor == "4k" && rapid.IntRange(0, 3).Draw(t, "lvl4k") == 0 {
			s.Level = rapid.SampledFrom([]int{3, 5, 9}).Draw(t, "level4k")
		}
	}
	if withDict && s.Pkg != "gzip" && rapid.IntRange(0, 5).Draw(t, "usedict") == 0 {
		s.Ctor = "dict"
		r := gen.Recipe{Segs: []gen.Seg{gen.DrawSeg(t, rapid.IntRange(1, 400).Draw(t, "dictlen"))}}
		s.Dict = &r
	}
	return s
}

// OpResult is what one Writer call did.
type OpResult struct {
	K     string
	N     int
	RetN  int
	Err   error
	Out   []byte // bytes the destination accepted during this call
	Calls int    // destination Write calls made during this call
	Panic string
}

// runOps executes ops on w. Data for "W" ops is taken from data in order. "R"
// switches to the next sink produced by nextSink. It never lets a panic escape.
func runOps(w anyWriter, sink *iox.Sink, data []byte, ops []gen.Op, nextSink func() *iox.Sink) (res []OpResult, sinks []*iox.Sink) {
	sinks = []*iox.Sink{sink}
	off := 0
	for _, op := range ops {
		r := OpResult{K: op.K, N: op.N}
		before, callsBefore := sink.Len(), sink.NCalls
		func() {
			defer func() {
				if p := recover(); p != nil {
					r.Panic = fmt.Sprint(p)
				}
			}()
			switch op.K {
			case "W":
				end := off + op.N
				if end > len(data) {
					end = len(data)
				}
				chunk := data[off:end]
				off = end
				r.RetN, r.Err = writeReused(w, chunk)
			case "F":
				r.Err = w.Flush()
			case "C":
				r.Err = w.Close()
			case "R":
				sink = nextSink()
				sinks = append(sinks, sink)
				before, callsBefore = 0, 0
				w.Reset(sink)
			}
		}()
		r.Out = append([]byte(nil), sink.Bytes()[before:]...)
		r.Calls = sink.NCalls - callsBefore
		res = append(res, r)
		if r.Panic != "" {
			break
		}
	}
	return res, sinks
}

func errStr(e error) string {
	if e == nil {
		return "<nil>"
	}
	return e.Error()
}

// decodeContainer decodes a complete container/stream of the given package with
// the reference machinery and returns the payload, or an error description.
func decodeContainerRef(pkg string, z, dict []byte) (payload []byte, deflateBody *refinflate.Result, err error) {
	switch pkg {
	case "gzip":
		g := refinflate.ParseGzip(z, true)
		if g.Verdict != refinflate.CValid {
			var body *refinflate.Result
			if g.Partial != nil {
				body = g.Partial.Inflate
			}
			return g.Payload, body, fmt.Errorf("reference gzip parser: %v (%s)", g.Verdict, g.Reason)
		}
		if len(g.Members) != 1 {
			return g.Payload, nil, fmt.Errorf("reference gzip parser: %d members", len(g.Members))
		}
		if g.Members[0].End != len(z) {
			return g.Payload, g.Members[0].Inflate, fmt.Errorf("gzip member ends at %d of %d bytes", g.Members[0].End, len(z))
		}
		return g.Payload, g.Members[0].Inflate, nil
	case "zlib":
		zr := refinflate.ParseZlib(z, dict)
		if zr.Verdict != refinflate.CValid {
			return zr.Payload, zr.Inflate, fmt.Errorf("reference zlib parser: %v (%s)", zr.Verdict, zr.Reason)
		}
		if zr.End != len(z) {
			return zr.Payload, zr.Inflate, fmt.Errorf("zlib stream ends at %d of %d bytes", zr.End, len(z))
		}
		return zr.Payload, zr.Inflate, nil
	default:
		r := refinflate.Inflate(z, refinflate.Options{Dict: dict})
		if r.Verdict != refinflate.Valid {
			return r.Out, r, fmt.Errorf("reference inflater: %v at bit %d (%s)", r.Verdict, r.DefectBit, r.Reason)
		}
		if r.EndByte != len(z) {
			return r.Out, r, fmt.Errorf("stream ends at %d of %d bytes", r.EndByte, len(z))
		}
		return r.Out, r, nil
	}
}

// decodeContainerStd decodes with the standard library's reader of the package.
func decodeContainerStd(pkg string, z, dict []byte) ([]byte, error) {
	switch pkg {
	case "gzip":
		r, err := stdgzip.NewReader(bytes.NewReader(z))
		if err != nil {
			return nil, err
		}
		return io.ReadAll(r)
	case "zlib":
		r, err := stdzlib.NewReaderDict(bytes.NewReader(z), dict)
		if err != nil {
			return nil, err
		}
		return io.ReadAll(r)
	default:
		out, err, _ := stdInflate(z, dict)
		return out, err
	}
}

// checkCompleteContainer: z must be one complete valid stream/container of data.
func checkCompleteContainer(pkg string, z, data, dict []byte) error {
	out, _, err := decodeContainerRef(pkg, z, dict)
	if err != nil {
		return fmt.Errorf("%v after %d of %d payload bytes (%d emitted bytes)", err, len(out), len(data), len(z))
	}
	if !bytes.Equal(out, data) {
		return fmt.Errorf("reference decode differs at byte %d (got %d bytes, want %d)", firstDiff(out, data), len(out), len(data))
	}
	sout, serr := decodeContainerStd(pkg, z, dict)
	if serr != nil || !bytes.Equal(sout, data) {
		return fmt.Errorf("standard library %s reader: err=%v, %d bytes, first difference at %d", pkg, serr, len(sout), firstDiff(sout, data))
	}
	return nil
}
