package props

import (
	"bufio"
	"bytes"
	stdflate "compress/flate"
	"errors"
	"fmt"
	"io"
	"os"

	fflate "github.com/intel/fastgo/compress/flate"

	"verifharness/gen"
	"verifharness/refinflate"
)

// WSetting selects a flate Writer constructor and its arguments.
type WSetting struct {
	Ctor  string      `json:"ctor"` // new | 4k | dict
	Level int         `json:"level"`
	Dict  *gen.Recipe `json:"dict,omitempty"` // only for ctor "dict"; nil recipe pointer = nil dictionary
}

func (s WSetting) dictBytes() []byte {
	if s.Ctor != "dict" || s.Dict == nil {
		return nil
	}
	b := s.Dict.Bytes()
	if b == nil {
		b = []byte{}
	}
	return b
}

// delegated reports whether this setting is served by compress/flate itself.
func (s WSetting) delegated() bool {
	switch s.Ctor {
	case "4k":
		return s.Level == 0
	case "dict":
		if s.Dict != nil {
			return true
		}
	}
	return s.Level == 0 || s.Level >= 3
}

func (s WSetting) window() int {
	if s.Ctor == "4k" && s.Level != 0 {
		return 4096
	}
	return 32768
}

func (s WSetting) String() string {
	return fmt.Sprintf("%s/L%d", s.Ctor, s.Level)
}

func newFlateWriter(dst io.Writer, s WSetting) (*fflate.Writer, error) {
	return newFlateWriterDict(dst, s, s.dictBytes())
}

// newFlateWriterDict: as newFlateWriter, with the dictionary in a buffer the caller keeps.
func newFlateWriterDict(dst io.Writer, s WSetting, dict []byte) (*fflate.Writer, error) {
	switch s.Ctor {
	case "4k":
		return fflate.NewWriterwWith4KWindow(dst, s.Level)
	case "dict":
		return fflate.NewWriterDict(dst, s.Level, dict)
	default:
		return fflate.NewWriter(dst, s.Level)
	}
}

// readAllChunks drains r using the given cyclic sequence of buffer sizes and
// returns the bytes and the terminating error (nil never: reads until error).
// It enforces the Read contract (0 <= n <= len(p)) and a livelock bound.
func readAllChunks(r io.Reader, sizes []int, limit int) (out []byte, err error) {
	if len(sizes) == 0 {
		sizes = []int{4096}
	}
	zero := 0
	maxSz := 0
	for _, s := range sizes {
		if s > maxSz {
			maxSz = s
		}
	}
	buf := make([]byte, maxSz)
	for i := 0; ; i++ {
		p := buf[:sizes[i%len(sizes)]]
		n, e := r.Read(p)
		if n < 0 || n > len(p) {
			return out, fmt.Errorf("Read returned n=%d for a %d-byte buffer", n, len(p))
		}
		out = append(out, p[:n]...)
		if e != nil {
			return out, e
		}
		if n == 0 {
			zero++
			if zero > 10000 {
				return out, errLivelock
			}
		} else {
			zero = 0
		}
		if limit > 0 && len(out) > limit {
			return out, errTooMuch
		}
	}
}

var (
	errLivelock = errors.New("LIVELOCK: Read returned (0, nil) 10000 times in a row")
	errTooMuch  = errors.New("output exceeds the expected bound")
)

// stdInflate decodes z with compress/flate. consumed is the number of bytes of z
// the decoder needed.
func stdInflate(z, dict []byte) (out []byte, err error, consumed int) {
	br := bytes.NewReader(z)
	var r io.ReadCloser
	if dict != nil {
		r = stdflate.NewReaderDict(br, dict)
	} else {
		r = stdflate.NewReader(br)
	}
	out, err = io.ReadAll(r)
	return out, err, len(z) - br.Len()
}

// fastInflate decodes z with fastgo's Reader (all at once).
func fastInflate(z, dict []byte) (out []byte, err error) {
	defer guardPanic(&err)
	var r io.Reader
	if dict != nil {
		r = fflate.NewReaderDict(bytes.NewReader(z), dict)
	} else {
		r = fflate.NewReader(bytes.NewReader(z))
	}
	return io.ReadAll(r)
}

// oracleError marks a disagreement between the harness's own oracles: a harness
// defect, never a violation of the code under test.
type oracleError struct{ msg string }

func (e *oracleError) Error() string { return "ORACLE-DISAGREEMENT: " + e.msg }

func stdVerdict(err error) refinflate.Verdict {
	var ce stdflate.CorruptInputError
	switch {
	case err == nil:
		return refinflate.Valid
	case err == io.ErrUnexpectedEOF:
		return refinflate.Truncated
	case errors.As(err, &ce):
		return refinflate.Corrupt
	}
	return refinflate.Verdict(-1)
}

// selfCheck compares the reference inflater (strict) with compress/flate on z.
func selfCheck(z, dict []byte, ref *refinflate.Result) error {
	out, err, consumed := stdInflate(z, dict)
	if v := stdVerdict(err); v != ref.Verdict {
		// compress/flate does not decode a lit/len symbol until as many bits as its
		// end-of-block code has (<= 15) are available; a defect whose symbol starts
		// within the last 15 bits of the input is therefore "unexpected EOF" to it.
		if v == refinflate.Truncated && ref.Verdict == refinflate.Corrupt && int64(len(z))*8-ref.DefectBit < 15 {
			return nil
		}
		return &oracleError{fmt.Sprintf("verdict: ref=%v (%s) std=%v (%v)", ref.Verdict, ref.Reason, v, err)}
	}
	if ref.Verdict == refinflate.Truncated {
		// compress/flate does not decode a symbol until as many bits as its end-of-block
		// code has are available, so on a truncated stream it may stop a few symbols
		// earlier than a bit-serial decoder: its output is a prefix of the reference's.
		if !bytes.HasPrefix(ref.Out, out) {
			return &oracleError{fmt.Sprintf("output on truncated input: std's %d bytes are not a prefix of ref's %d bytes", len(out), len(ref.Out))}
		}
	} else if !bytes.Equal(out, ref.Out) {
		return &oracleError{fmt.Sprintf("output: ref %d bytes, std %d bytes (verdict %v)", len(ref.Out), len(out), ref.Verdict)}
	}
	if ref.Verdict == refinflate.Valid && consumed != ref.EndByte {
		return &oracleError{fmt.Sprintf("stream end: ref %d std consumed %d", ref.EndByte, consumed)}
	}
	return nil
}

func firstDiff(a, b []byte) int {
	n := len(a)
	if len(b) < n {
		n = len(b)
	}
	for i := 0; i < n; i++ {
		if a[i] != b[i] {
			return i
		}
	}
	if len(a) != len(b) {
		return n
	}
	return -1
}

func hexPrefix(b []byte, n int) string {
	if len(b) > n {
		return fmt.Sprintf("%x…(%d bytes)", b[:n], len(b))
	}
	return fmt.Sprintf("%x", b)
}

// writeReused hands w the bytes of chunk in a buffer of the caller's that is overwritten as soon as
// the call returns - what io.Copy and every pooled-buffer caller do. A Writer that kept a reference
// to the slice instead of consuming it would compress the overwritten bytes.
func writeReused(w io.Writer, chunk []byte) (int, error) {
	buf := append(make([]byte, 0, len(chunk)), chunk...)
	n, err := w.Write(buf)
	for i := range buf {
		buf[i] = 0xDD
	}
	return n, err
}

// --- known findings ------------------------------------------------------------

// knownActive reports whether the known-findings file lists entry id as "known"
// (the driver passes the ids in VERIF_KNOWN_IDS). Exclusion predicates are only
// applied for listed entries, so removing an entry re-enables the full domain.
func knownActive(id string) bool {
	for _, k := range splitListSep(os.Getenv("VERIF_KNOWN_IDS"), ',') {
		if k == id {
			return true
		}
	}
	return false
}

func splitListSep(s string, sep rune) (out []string) {
	cur := ""
	for _, r := range s {
		if r == sep {
			if cur != "" {
				out = append(out, cur)
			}
			cur = ""
			continue
		}
		cur += string(r)
	}
	if cur != "" {
		out = append(out, cur)
	}
	return out
}

// stdDictRoundTripBroken is the class predicate of known finding
// "std-dict-stored-first-block": Go's own compress/flate, given the same
// dictionary, level and call sequence, does not round-trip this input (its
// fillWindow leaves blockStart at 0, so a first block emitted as a stored block
// contains the dictionary bytes). fastgo delegates dictionary compression to
// compress/flate, so the defect shows through its API. The predicate runs only
// the standard library, never fastgo.
func stdDictRoundTripBroken(level int, dict, data []byte, ops []gen.Op) bool {
	if len(dict) == 0 {
		return false
	}
	var b bytes.Buffer
	w, err := stdflate.NewWriterDict(&b, level, dict)
	if err != nil {
		return false
	}
	off := 0
	for _, op := range ops {
		switch op.K {
		case "W":
			w.Write(data[off : off+op.N])
			off += op.N
		case "F":
			w.Flush()
		}
	}
	w.Close()
	out, err := io.ReadAll(stdflate.NewReaderDict(bytes.NewReader(b.Bytes()), dict))
	return err != nil || !bytes.Equal(out, data)
}

func newBufio(r io.Reader, size int) *bufio.Reader { return bufio.NewReaderSize(r, size) }
