package props

import (
	"bytes"
	"encoding/json"
	"fmt"
	"testing"

	"pgregory.net/rapid"

	"verifharness/gen"
	"verifharness/iox"
	"verifharness/stats"
)

// C19: the 4 KiB-window writer never refers back more than 4096 bytes (32768 for the ordinary one).

type C19Case struct {
	Data   gen.Recipe  `json:"data"`
	Set    WSetting    `json:"set"`
	Ops    []gen.Op    `json:"ops"`
	Before *gen.Recipe `json:"before,omitempty"` // the Writer first compressed this (and was closed or abandoned), then Reset
	Closed bool        `json:"closed,omitempty"`
	FailAt int         `json:"fail_at,omitempty"` // the first use's destination fails at this call (0 = never)
}

var c19Dists = []int{4094, 4095, 4096, 4097, 4098, 32766, 32767, 32768, 32769, 32770, 65535, 65536, 65537, 2049, 3000, 4000, 8192, 8193, 16384, 20000, 30000, 40000}

// drawPlanted draws data dominated by planted repeats at chosen distances,
// separated by fresh high-entropy filler.
func drawPlanted(t *rapid.T, max int) gen.Recipe {
	var r gen.Recipe
	total := 0
	add := func(s gen.Seg) {
		if s.N <= 0 {
			return
		}
		r.Segs = append(r.Segs, s)
		total += s.N
	}
	mode := rapid.IntRange(0, 5).Draw(t, "c19mode")
	switch mode {
	case 0:
		// periodic data with a period just past a window
		p := rapid.SampledFrom([]int{4097, 4098, 8193, 32769, 4095, 4096, 32768, 65537}).Draw(t, "period")
		n := rapid.IntRange(2*p, 4*p+70000).Draw(t, "n")
		if n > max {
			n = max
		}
		add(gen.Seg{Kind: "rand", N: p, A: 256, Seed: rapid.Uint64Range(0, 1<<20).Draw(t, "seed")})
		add(gen.Seg{Kind: "repeat", N: n - p, A: p})
		return r
	case 1:
		// long input (16-bit position wrap) of text-like data
		return gen.DrawRecipeN(t, rapid.IntRange(65536, max).Draw(t, "n"))
	}
	lead := rapid.SampledFrom([]int{0, 0, 100, 5000, 61000, 66000, 130000}).Draw(t, "lead")
	add(gen.Seg{Kind: "rand", N: lead, A: 256, Seed: rapid.Uint64Range(0, 1<<20).Draw(t, "seed")})
	k := rapid.IntRange(1, 12).Draw(t, "nplant")
	d := rapid.SampledFrom(c19Dists).Draw(t, "dist")
	for i := 0; i < k && total < max; i++ {
		if rapid.IntRange(0, 2).Draw(t, "newdist") == 0 {
			d = rapid.SampledFrom(c19Dists).Draw(t, "dist")
		}
		// make sure there are at least d bytes of history: fresh filler first
		need := d - total
		fill := rapid.IntRange(8, 600).Draw(t, "fill")
		if need > fill {
			fill = need
		}
		add(gen.Seg{Kind: "rand", N: fill, A: 256, Seed: rapid.Uint64Range(0, 1<<20).Draw(t, "seed")})
		m := rapid.SampledFrom([]int{4, 5, 8, 9, 16, 40, 258, 259, 300, 600}).Draw(t, "mlen")
		add(gen.Seg{Kind: "repeat", N: m, A: d})
	}
	add(gen.Seg{Kind: "rand", N: rapid.IntRange(0, 40).Draw(t, "tail"), A: 256, Seed: 7})
	return r
}

func drawC19(t *rapid.T) C19Case {
	var c C19Case
	c.Set.Ctor = rapid.SampledFrom([]string{"4k", "4k", "4k", "new"}).Draw(t, "ctor")
	if c.Set.Ctor == "4k" {
		c.Set.Level = rapid.SampledFrom([]int{1, 1, 2, 2, -1, 3, 4, 5, 6, 7, 8, 9}).Draw(t, "level")
	} else {
		c.Set.Level = rapid.SampledFrom([]int{1, 2, -1}).Draw(t, "level")
	}
	max := 220 << 10
	if thorough() {
		max = 520 << 10
	}
	c.Data = drawPlanted(t, max)
	c.Ops = gen.DrawWriteOps(t, c.Data.Len(), true)
	if rapid.IntRange(0, 3).Draw(t, "reuse") == 0 {
		b := gen.DrawRecipe(t, 80<<10)
		c.Before = &b
		c.Closed = rapid.Bool().Draw(t, "closedbefore")
		if rapid.IntRange(0, 2).Draw(t, "failbefore") == 0 {
			c.FailAt = rapid.IntRange(1, 6).Draw(t, "failat")
		}
	}
	return c
}

func checkC19(c C19Case) (labels []string, nontrivial bool, err error) {
	data := c.Data.Bytes()
	var z []byte
	if c.Before != nil {
		z, err = runWriterOpsReused(c.Set, c.Before.Bytes(), c.Closed, c.FailAt, data, c.Ops)
	} else {
		z, err = runWriterOps(c.Set, data, c.Ops)
	}
	if err != nil {
		return nil, false, err
	}
	ref, err := checkCompleteStream(z, data, nil)
	if err != nil {
		return nil, false, err
	}
	w := c.Set.window()
	if ref.MaxDist > w {
		return nil, false, fmt.Errorf("back-reference with distance %d at output position %d exceeds the %d-byte window of constructor %q level %d", ref.MaxDist, ref.MaxDistAt, w, c.Set.Ctor, c.Set.Level)
	}
	labels = append(labels, "setting:"+c.Set.String())
	if ref.MaxDist == w {
		labels = append(labels, fmt.Sprintf("dist==w(%d)", w))
	}
	if ref.MaxDist > w/2 {
		labels = append(labels, fmt.Sprintf("dist>w/2(%d)", w))
	}
	if len(data) > 65536 {
		labels = append(labels, "data>64KiB")
	}
	if len(data) > 131072 {
		labels = append(labels, "data>128KiB")
	}
	if ref.NumMatches == 0 {
		labels = append(labels, "no-match-at-all")
	}
	if c.Before != nil {
		labels = append(labels, "writer-reused-after-reset")
	}
	return labels, ref.MaxDist > w/2 || len(data) > 65536, nil
}

func TestC19(t *testing.T) {
	rapid.Check(t, func(t *rapid.T) {
		c := drawC19(t)
		done := begin("C19", c)
		defer done()
		labels, nt, err := checkC19(c)
		if err != nil {
			saveLast("C19", c, err)
			t.Fatalf("C19 violated: %v", err)
		}
		stats.Record("C19", stats.Digest(c), nt, labels, func() any { return c })
	})
}

func init() {
	replayers["C19"] = func(raw json.RawMessage) error {
		var c C19Case
		if err := json.Unmarshal(raw, &c); err != nil {
			return err
		}
		_, _, err := checkC19(c)
		return err
	}
}

// runWriterOpsReused: the Writer first writes `before` (then Close or nothing), is Reset onto a
// new destination and then runs ops + Close on data. Returns the bytes of the second stream.
func runWriterOpsReused(set WSetting, before []byte, closeFirst bool, failAt int, data []byte, ops []gen.Op) (z []byte, err error) {
	defer guardPanic(&err)
	var dst bytes.Buffer
	first := &iox.Sink{FailAt: failAt, FailErr: errInjected, Sticky: true}
	w, err := newFlateWriter(first, set)
	if err != nil {
		return nil, err
	}
	guard := w.VerifGuard()
	if _, e := w.Write(before); e != nil && failAt == 0 {
		return nil, fmt.Errorf("first use: Write = %v", e)
	}
	if closeFirst {
		if e := w.Close(); e != nil && failAt == 0 {
			return nil, fmt.Errorf("first use: Close = %v", e)
		}
	}
	w.Reset(&dst)
	off := 0
	for i, op := range ops {
		switch op.K {
		case "W":
			n, e := w.Write(data[off : off+op.N])
			if e != nil || n != op.N {
				return nil, fmt.Errorf("op %d Write(%d bytes) = (%d, %v)", i, op.N, n, e)
			}
			off += op.N
		case "F":
			if e := w.Flush(); e != nil {
				return nil, fmt.Errorf("op %d Flush = %v", i, e)
			}
		}
	}
	if e := w.Close(); e != nil {
		return nil, fmt.Errorf("Close = %v", e)
	}
	if guard != nil {
		if e := guard(); e != nil {
			return nil, e
		}
	}
	return dst.Bytes(), nil
}
