package props

import (
	"bytes"
	"encoding/json"
	"fmt"
	"hash/crc32"
	"testing"

	"pgregory.net/rapid"

	"verifharness/gen"
	"verifharness/stats"
)

// C20: bounded expansion, and repeats are actually found.

type C20Case struct {
	Mode string     `json:"mode"` // expansion | periodic
	Data gen.Recipe `json:"data"`
	Set  WSetting   `json:"set"`
	Ops  []gen.Op   `json:"ops"` // Writes only; one Close
}

func drawC20(t *rapid.T) C20Case {
	var c C20Case
	c.Set.Ctor = rapid.SampledFrom([]string{"new", "4k"}).Draw(t, "ctor")
	max := 300 << 10
	if thorough() {
		max = 1 << 20
	}
	if rapid.IntRange(0, 4).Draw(t, "mode") == 0 {
		c.Mode = "periodic"
		c.Set.Level = rapid.SampledFrom([]int{1, 2, -1}).Draw(t, "level")
		n := rapid.SampledFrom([]int{65536, 65537, 70000, 131072, 200000, max}).Draw(t, "n")
		if n > max {
			n = max
		}
		p := rapid.IntRange(1, 64).Draw(t, "period")
		if rapid.Bool().Draw(t, "longperiod") {
			// rapid's integers lean towards the small end; long periods are where a period's windows can repeat
			p = 64 - rapid.IntRange(0, 31).Draw(t, "period_from_top")
		}
		c.Data = gen.Recipe{Segs: []gen.Seg{{Kind: "period", N: n, A: p, B: rapid.SampledFrom([]int{0, 0, 2, 3, 4, 16, 64}).Draw(t, "palpha"), Seed: rapid.Uint64Range(0, 1<<20).Draw(t, "seed")}}}
	} else {
		c.Mode = "expansion"
		c.Set.Level = rapid.SampledFrom([]int{-2, -1, 1, 2}).Draw(t, "level")
		n := gen.DrawLen(t, "total", max)
		seed := rapid.Uint64Range(0, 1<<20).Draw(t, "seed")
		switch rapid.IntRange(0, 7).Draw(t, "shape") {
		case 0:
			c.Data = gen.Recipe{Segs: []gen.Seg{{Kind: "rand", N: n, A: 256, Seed: seed}}}
		case 1:
			c.Data = gen.Recipe{Segs: []gen.Seg{{Kind: "near", N: n, Seed: seed}}}
		case 2:
			c.Data = gen.Recipe{Segs: []gen.Seg{{Kind: "fib", N: n, A: rapid.IntRange(10, 40).Draw(t, "nsym"), Seed: seed}}}
		case 3:
			if n > 300 {
				n = rapid.IntRange(1, 300).Draw(t, "small")
			}
			c.Data = gen.Recipe{Segs: []gen.Seg{{Kind: "inc", N: n, A: int(seed % 256)}}}
		case 6:
			// exact Fibonacci counts over k symbols (the deepest possible Huffman tree for its size), exactly filling the data
			k := rapid.IntRange(12, 23).Draw(t, "fibk")
			variant := rapid.IntRange(0, 1).Draw(t, "fibvariant")
			fa, fb, sum := 1, 1+variant, 0
			for i := 0; i < k; i++ {
				sum += fa
				fa, fb = fb, fa+fb
			}
			if sum > max {
				sum = max
			}
			c.Data = gen.Recipe{Segs: []gen.Seg{{Kind: "fib", N: sum, A: k, B: variant, Seed: seed}}}
		case 5:
			// one symbol at exactly half of the bytes (UTF-16 text, 16-bit samples): counts of 32768/65536 per block
			c.Data = gen.Recipe{Segs: []gen.Seg{{Kind: "interleave", N: n, A: int(seed % 3 * 127), Seed: seed}}}
		case 4:
			// alternating compressible / incompressible segments
			rem := n
			for i := 0; rem > 0 && i < 8; i++ {
				m := rapid.IntRange(0, rem).Draw(t, "alt")
				if i == 7 {
					m = rem
				}
				if i%2 == 0 {
					c.Data.Segs = append(c.Data.Segs, gen.Seg{Kind: "rand", N: m, A: 256, Seed: seed + uint64(i)})
				} else {
					c.Data.Segs = append(c.Data.Segs, gen.Seg{Kind: "text", N: m, Seed: seed + uint64(i)})
				}
				rem -= m
			}
		default:
			c.Data = gen.DrawRecipeN(t, n)
		}
	}
	c.Ops = gen.DrawWriteOps(t, c.Data.Len(), false)
	return c
}

// crc32cTable: the x86 CRC32 instruction (Castagnoli polynomial), which the assembly match finders use as hash.
var crc32cTable = crc32.MakeTable(crc32.Castagnoli)

// collidingFraction is the class predicate of the known finding "periodic-hash-bucket-collisions":
// for data repeating with period pat, the largest fraction (over the match finders' bucket functions:
// CRC32C or the multiplicative hash of lz77.go, 12 or 15 bits) of the period's 4-byte windows that
// share their hash bucket with a different window of the same period. The match finders keep one
// position per bucket, so such windows evict each other on every repetition and never match.
func collidingFraction(pat []byte) float64 {
	p := len(pat)
	if p == 0 {
		return 0
	}
	grams := make([]uint32, p)
	for i := range grams {
		grams[i] = uint32(pat[i%p]) | uint32(pat[(i+1)%p])<<8 | uint32(pat[(i+2)%p])<<16 | uint32(pat[(i+3)%p])<<24
	}
	hashMul := func(d uint32) uint32 {
		const prime = 0xB2D06057
		h := uint64(d)
		h *= prime
		h >>= 16
		h *= prime
		h >>= 16
		return uint32(h)
	}
	hashCRC := func(d uint32) uint32 {
		b := []byte{byte(d), byte(d >> 8), byte(d >> 16), byte(d >> 24)}
		return ^crc32.Update(0xffffffff, crc32cTable, b)
	}
	worst := 0.0
	for _, h := range []func(uint32) uint32{hashMul, hashCRC} {
		for _, mask := range []uint32{1<<12 - 1, 1<<15 - 1} {
			byBucket := map[uint32]map[uint32]bool{}
			for _, g := range grams {
				b := h(g) & mask
				if byBucket[b] == nil {
					byBucket[b] = map[uint32]bool{}
				}
				byBucket[b][g] = true
			}
			bad := 0
			for _, g := range grams {
				if len(byBucket[h(g)&mask]) > 1 {
					bad++
				}
			}
			if f := float64(bad) / float64(p); f > worst {
				worst = f
			}
		}
	}
	return worst
}

// repeatedWindow is the class predicate of the known finding "periodic-repeated-windows": some 4-byte
// window occurs more than once within one period. The match finders remember one (the most recent)
// position per window and accept it greedily, so the candidate is then less than one period back, at
// a distance that is not a multiple of the period, and the parse settles into short matches.
func repeatedWindow(pat []byte) bool {
	p := len(pat)
	seen := map[uint32]bool{}
	for i := 0; i < p; i++ {
		g := uint32(pat[i%p]) | uint32(pat[(i+1)%p])<<8 | uint32(pat[(i+2)%p])<<16 | uint32(pat[(i+3)%p])<<24
		if seen[g] {
			return true
		}
		seen[g] = true
	}
	return false
}

// periodOf returns the period bytes of a "periodic" case.
func (c C20Case) periodOf() []byte {
	if c.Mode != "periodic" || len(c.Data.Segs) == 0 {
		return nil
	}
	s := c.Data.Segs[0]
	p := s.A
	if len(s.Raw) > 0 {
		p = len(s.Raw)
	}
	if p < 1 {
		p = 1
	}
	one := s
	one.N = p
	return gen.Recipe{Segs: []gen.Seg{one}}.Bytes()
}

func checkC20(c C20Case) (labels []string, nontrivial bool, err error) {
	for _, o := range c.Ops {
		if o.K != "W" {
			return nil, false, fmt.Errorf("harness: C20 cases must not flush")
		}
	}
	data := c.Data.Bytes()
	n := len(data)
	z, err := runWriterOps(c.Set, data, c.Ops)
	if err != nil {
		return nil, false, err
	}
	out, derr, _ := stdInflate(z, nil)
	if derr != nil || !bytes.Equal(out, data) {
		return nil, false, fmt.Errorf("output does not decode to the input (err=%v)", derr)
	}
	key := fmt.Sprintf("%s_L%d", c.Set.Ctor, c.Set.Level)
	switch c.Mode {
	case "periodic":
		bound := n/32 + 1200
		if len(z) > bound {
			return nil, false, fmt.Errorf("periodic input (%d bytes, period %d) compressed to %d bytes > n/32+1200 = %d", n, c.Data.Segs[0].A, len(z), bound)
		}
		stats.ExtraMax("C20", "max_fraction_of_periodic_bound_"+key, float64(len(z))/float64(bound))
		labels = append(labels, "periodic")
	default:
		bound := n + n/32 + 256
		if len(z) > bound {
			return nil, false, fmt.Errorf("%d input bytes expanded to %d > n+n/32+256 = %d", n, len(z), bound)
		}
		if n >= 1024 {
			stats.ExtraMax("C20", "max_ratio_out_over_in_n>=1024_"+key, float64(len(z))/float64(n))
		}
		stats.ExtraMax("C20", "max_fraction_of_expansion_bound_"+key, float64(len(z))/float64(bound))
		labels = append(labels, "expansion")
		if len(z) > n {
			labels = append(labels, "expanded")
		}
	}
	labels = append(labels, "setting:"+c.Set.String())
	return labels, n >= 1, nil
}

func TestC20(t *testing.T) {
	rapid.Check(t, func(t *rapid.T) {
		c := drawC20(t)
		if c.Mode == "periodic" && knownActive("periodic-hash-bucket-collisions") && collidingFraction(c.periodOf()) >= 0.75 {
			stats.Exclude("C20", "periodic-hash-bucket-collisions")
			return
		}
		if c.Mode == "periodic" && knownActive("periodic-repeated-windows") && repeatedWindow(c.periodOf()) {
			// residual oracle for the class: the stream must still be valid and within the expansion bound
			stats.Exclude("C20", "periodic-repeated-windows")
			c.Mode = "expansion"
		}
		done := begin("C20", c)
		defer done()
		labels, nt, err := checkC20(c)
		if err != nil {
			saveLast("C20", c, err)
			t.Fatalf("C20 violated: %v", err)
		}
		stats.Record("C20", stats.Digest(c), nt, labels, func() any { return c })
	})
}

func init() {
	replayers["C20"] = func(raw json.RawMessage) error {
		var c C20Case
		if err := json.Unmarshal(raw, &c); err != nil {
			return err
		}
		_, _, err := checkC20(c)
		return err
	}
}
