package props

import (
	"fmt"
	"os"
	"path/filepath"
	"sort"
	"testing"

	"verifharness/stats"
)

// corpusDir finds /verif/corpus/<name> from wherever the test binary runs.
func corpusDir(name string) string {
	if d := os.Getenv("VERIF_CORPUS"); d != "" {
		return filepath.Join(d, name)
	}
	for _, up := range []string{"..", "../..", "../../.."} {
		d := filepath.Join(up, "corpus", name)
		if st, err := os.Stat(d); err == nil && st.IsDir() {
			return d
		}
	}
	return ""
}

// TestC02Corpus: raw DEFLATE streams written by zlib itself (every strategy, levels 0..9, windows
// 2^9..2^15, sync/full/partial flushes) - an encoder the other generators do not model. Each stream
// is decoded under the C02 oracle (identical to compress/flate, then io.EOF) with several Read sizes,
// and under C04's delivery variants (1-byte source, 16-byte bufio, data together with io.EOF).
func TestC02Corpus(t *testing.T) {
	dir := corpusDir("zlib")
	if dir == "" {
		t.Skip("corpus/zlib not found")
	}
	files, _ := filepath.Glob(filepath.Join(dir, "*.deflate"))
	sort.Strings(files)
	if len(files) == 0 {
		t.Fatalf("harness: no corpus files in %s", dir)
	}
	n := 0
	for i, f := range files {
		z, err := os.ReadFile(f)
		if err != nil {
			t.Fatalf("harness: %v", err)
		}
		spec := StreamSpec{Kind: "raw", Raw: z}
		for ri, reads := range [][]int{{4096}, {1}, {65536}, {3, 258, 1}} {
			if ri > 0 && len(z) > 20000 && !thorough() {
				continue
			}
			c := C02Case{Stream: spec, Reads: reads}
			done := begin("C02", c)
			labels, nt, err := checkC02(c)
			done()
			if err != nil {
				saveLast("C02", c, err)
				t.Fatalf("C02 violated (zlib-written stream %s): %v", filepath.Base(f), err)
			}
			stats.Record("C02", stats.Digest(c), nt, append(labels, "zlib-corpus"), func() any { return map[string]any{"file": filepath.Base(f), "reads": reads} })
			n++
		}
		// delivery variants (C04's relation: same bytes, same final error as the all-at-once run)
		variants := []C04Case{
			{Stream: spec, Chunks: []int{1}, Entry: "plain", Reads: []int{4096}},
			{Stream: spec, Entry: "bufio-new", BufSize: 16, Reads: []int{100}},
			{Stream: spec, Chunks: []int{7, 0, 16, 328, 5}, EOFWith: true, Entry: "bufio-reset", BufSize: 64, Reads: []int{1000}},
		}
		for vi, c4 := range variants {
			if len(z) > 20000 && !thorough() && (i+vi)%3 != 0 {
				continue
			}
			done := begin("C02", c4)
			_, _, err := checkC04(c4, false)
			done()
			if err != nil {
				saveLast("C04", c4, err)
				t.Fatalf("C02/C04 violated (zlib-written stream %s, delivery variant %d): %v", filepath.Base(f), vi, err)
			}
			n++
		}
	}
	stats.Exhaustive("C02", fmt.Sprintf("%d raw DEFLATE streams written by zlib (strategies default/filtered/Huffman-only/RLE/fixed x levels 0,1,3,6,9 x windows 2^9,2^12,2^15 x no/sync/full/partial flush) x Read sizes x delivery variants", len(files)), n)
}
