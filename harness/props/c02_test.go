package props

import (
	"bytes"
	"encoding/json"
	"fmt"
	"io"
	"testing"

	fflate "github.com/intel/fastgo/compress/flate"

	"pgregory.net/rapid"

	"verifharness/refinflate"
	"verifharness/stats"
)

// C02: the Reader decodes every valid DEFLATE stream exactly as compress/flate does.

type C02Case struct {
	Stream StreamSpec `json:"stream"`
	Reads  []int      `json:"reads"`
}

func drawC02(t *rapid.T) C02Case {
	max := 128 << 10
	if thorough() {
		max = 1 << 20
	}
	return C02Case{Stream: drawValidStream(t, max), Reads: drawReadSizes(t)}
}

// validStreamOracle builds the stream and establishes, with the harness's own
// oracles only, that it is valid and what it decodes to.
func validStreamOracle(s StreamSpec) (z []byte, ref *refinflate.Result, err error) {
	z, expected, known, err := s.Build()
	if err != nil {
		return nil, nil, err
	}
	ref = refinflate.Inflate(z, refinflate.Options{})
	if e := selfCheck(z, nil, ref); e != nil {
		return nil, nil, e
	}
	if ref.Verdict != refinflate.Valid {
		return nil, nil, &oracleError{fmt.Sprintf("generator produced a stream the oracles reject: %v %s", ref.Verdict, ref.Reason)}
	}
	if known && !bytes.Equal(ref.Out, expected) {
		return nil, nil, &oracleError{fmt.Sprintf("by-construction output (%d bytes) differs from the reference inflater's (%d bytes) at %d", len(expected), len(ref.Out), firstDiff(expected, ref.Out))}
	}
	return z, ref, nil
}

func traceLabels(ref *refinflate.Result, z []byte) (labels []string, interesting bool) {
	add := func(l string) { labels = append(labels, l); interesting = true }
	var has15, oneNextToLong, lit12, dist10, cross, degenerate, storedOff, empty, fixed, stored, dyn bool
	for _, b := range ref.Blocks {
		switch b.Type {
		case 0:
			stored = true
			if b.StoredLen >= 1 && b.StartBit%8 != 0 {
				storedOff = true
			}
		case 1:
			fixed = true
		case 2:
			dyn = true
			if b.MaxLitLen == 15 || b.MaxDistLen == 15 {
				has15 = true
			}
			if b.MinLitLen == 1 && b.MaxLitLen >= 13 {
				oneNextToLong = true
			}
			if b.MaxLitUsed > 12 {
				lit12 = true
			}
			if b.MaxDistUsed > 10 {
				dist10 = true
			}
			if b.RunCrosses {
				cross = true
			}
			if b.NumDistCodes <= 1 {
				degenerate = true
			}
		}
		if b.OutEnd == b.OutStart {
			empty = true
		}
	}
	if has15 {
		add("code-length-15")
	}
	if oneNextToLong {
		add("1-bit-code-next-to->=13-bit")
	}
	if lit12 {
		add("litlen-code>12-bits-used")
	}
	if dist10 {
		add("dist-code>10-bits-used")
	}
	if cross {
		add("header-run-crosses-lit/dist-boundary")
	}
	if degenerate {
		add("single-or-no-distance-code")
	}
	if storedOff {
		add("stored-block-at-bit-offset!=0")
	}
	if ref.MaxDist >= 32000 {
		add("distance>=32000")
	}
	if ref.MaxDist == 32768 {
		add("distance==32768")
	}
	if ref.Overlaps > 0 {
		add("overlap-copy")
	}
	if empty {
		add("empty-block")
	}
	if len(ref.Blocks) >= 100 {
		add("blocks>=100")
	}
	if len(ref.Out) > 65536 {
		add("output>64KiB")
	}
	if stored {
		labels = append(labels, "has-stored")
	}
	if fixed {
		labels = append(labels, "has-fixed")
	}
	if dyn {
		labels = append(labels, "has-dynamic")
	}
	return labels, interesting
}

// readerContractTail: after the terminal error, further Reads return (0, same error).
func readerContractTail(r io.Reader, want error) error {
	buf := make([]byte, 16)
	for i := 0; i < 3; i++ {
		n, e := r.Read(buf)
		if n != 0 || e != want {
			return fmt.Errorf("Read after the terminal error %v returned (%d, %v)", want, n, e)
		}
	}
	return nil
}

func checkC02(c C02Case) (labels []string, nontrivial bool, err error) {
	defer guardPanic(&err)
	z, ref, err := validStreamOracle(c.Stream)
	if err != nil {
		return nil, false, err
	}
	r := fflate.NewReader(bytes.NewReader(z))
	out, rerr := readAllChunks(r, c.Reads, len(ref.Out)+1024)
	if rerr != io.EOF {
		return nil, false, fmt.Errorf("valid stream (%d bytes -> %d bytes): Reader ended with %v after %d bytes (want io.EOF)", len(z), len(ref.Out), rerr, len(out))
	}
	if !bytes.Equal(out, ref.Out) {
		return nil, false, fmt.Errorf("valid stream: Reader output differs from compress/flate's at byte %d (got %d bytes, want %d)", firstDiff(out, ref.Out), len(out), len(ref.Out))
	}
	if e := readerContractTail(r, io.EOF); e != nil {
		return nil, false, e
	}
	labels, nt := traceLabels(ref, z)
	labels = append(labels, "source:"+c.Stream.Kind)
	return labels, nt, nil
}

func TestC02(t *testing.T) {
	rapid.Check(t, func(t *rapid.T) {
		c := drawC02(t)
		done := begin("C02", c)
		defer done()
		labels, nt, err := checkC02(c)
		if err != nil {
			saveLast("C02", c, err)
			t.Fatalf("C02 violated: %v", err)
		}
		stats.Record("C02", stats.Digest(c), nt, labels, func() any { return c })
	})
}

func init() {
	replayers["C02"] = func(raw json.RawMessage) error {
		var c C02Case
		if err := json.Unmarshal(raw, &c); err != nil {
			return err
		}
		_, _, err := checkC02(c)
		return err
	}
}
