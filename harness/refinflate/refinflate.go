// Package refinflate is an independent, bit-serial reference DEFLATE decoder
// written for the verification harness. It shares no code with fastgo or with
// compress/flate: canonical codes are decoded by counting (the "puff"
// construction), there are no lookup tables, no look-ahead and no unsafe.
//
// Besides the decoded bytes it reports a verdict, the exact end position of the
// stream in bits, where a defect sits, and a trace (blocks, code shapes,
// matches, sync-flush points) that the property checks use as their oracle.
package refinflate

import "fmt"

type Verdict int

const (
	Valid     Verdict = iota // a complete stream was decoded
	Truncated                // input ended before the stream did; everything seen so far was well-formed
	Corrupt                  // a defect was found at DefectBit
)

func (v Verdict) String() string {
	switch v {
	case Valid:
		return "VALID"
	case Truncated:
		return "TRUNCATED"
	default:
		return "CORRUPT"
	}
}

// Options selects acceptance rules.
type Options struct {
	// Permissive additionally accepts incomplete (under-subscribed) prefix codes
	// as long as no unassigned code is used. Strict (the default) follows the
	// acceptance rules of Go's compress/flate: every code is complete or is the
	// single code of length 1.
	Permissive bool
	// Dict is an optional preset dictionary.
	Dict []byte
	// MaxOut stops decoding (verdict Corrupt, reason "output limit") when more
	// than MaxOut bytes would be produced. 0 = 64 MiB.
	MaxOut int
	// RecordMatches keeps every match in Result.Matches (otherwise only
	// aggregate figures are kept).
	RecordMatches bool
}

type Block struct {
	Type         int // 0 stored, 1 fixed, 2 dynamic
	Final        bool
	StartBit     int64 // first bit of the 3-bit block header
	HeaderEndBit int64 // first bit after the block header (tables / LEN,NLEN)
	EndBit       int64 // first bit after the block (after EOB / after stored data); -1 if incomplete
	OutStart     int
	OutEnd       int
	NSym         int // symbols decoded (literals + matches + EOB)
	NMatch       int
	StoredLen    int
	HLIT, HDIST  int // counts (257.., 1..)
	HCLEN        int
	LitLens      []uint8
	DistLens     []uint8
	MaxLitLen    int  // longest lit/len code length defined
	MinLitLen    int  // shortest lit/len code length defined
	MaxDistLen   int  // longest distance code length defined
	NumDistCodes int  // number of distance symbols with non-zero length
	MaxLitUsed   int  // longest lit/len code length actually used
	MaxDistUsed  int  // longest distance code length actually used
	RunCrosses   bool // a 16/17/18 run spans the lit/len -> distance boundary
	Incomplete   bool // some code in this block is incomplete (permissive only, or single 1-bit code)
}

type Match struct {
	OutPos int
	Len    int
	Dist   int
}

type SyncPoint struct {
	ByteEnd int // offset of the first byte after the empty stored block
	OutLen  int // bytes decoded before it
}

type Result struct {
	Verdict   Verdict
	Out       []byte
	EndBit    int64 // for Valid: first bit after the final block
	EndByte   int   // for Valid: number of input bytes the stream occupies
	DefectBit int64 // for Corrupt: bit position at which the defect was established; for Truncated: input length in bits
	Reason    string
	Blocks    []Block
	Matches   []Match
	Syncs     []SyncPoint

	NumMatches    int
	MaxDist       int
	MaxDistAt     int // output position of a match with the maximum distance
	MaxLen        int
	Overlaps      int  // matches with dist < len
	Dist1Long     int  // matches with dist == 1 and len >= 8
	CleanCut      bool // Truncated exactly at a block boundary with no pending bits of a next header consumed
	CutInHeader   bool // Truncated while reading a block header (incl. tables)
	BlockAtDefect int  // index of the block in which the defect / truncation lies
}

type errTrunc struct{}
type errCorrupt struct {
	bit    int64
	reason string
}

type bitReader struct {
	in  []byte
	pos int64 // bit position
}

func (r *bitReader) bit() int {
	byteIdx := r.pos >> 3
	if byteIdx >= int64(len(r.in)) {
		panic(errTrunc{})
	}
	b := int(r.in[byteIdx]>>(uint(r.pos)&7)) & 1
	r.pos++
	return b
}

func (r *bitReader) bits(n int) int {
	v := 0
	for i := 0; i < n; i++ {
		v |= r.bit() << uint(i)
	}
	return v
}

type code struct {
	count  [16]int
	symbol []int
	maxLen int
	minLen int
	n      int // number of symbols with non-zero length
}

// build constructs a canonical code; returns left = remaining code space
// (0 complete, >0 incomplete, <0 over-subscribed).
func build(lengths []uint8) (c code, left int) {
	for _, l := range lengths {
		c.count[l]++
	}
	c.n = len(lengths) - c.count[0]
	c.count[0] = 0
	left = 1
	for l := 1; l <= 15; l++ {
		left <<= 1
		left -= c.count[l]
		if left < 0 {
			return c, left
		}
		if c.count[l] > 0 {
			c.maxLen = l
			if c.minLen == 0 {
				c.minLen = l
			}
		}
	}
	var offs [16]int
	for l := 1; l < 15; l++ {
		offs[l+1] = offs[l] + c.count[l]
	}
	c.symbol = make([]int, c.n)
	for s, l := range lengths {
		if l != 0 {
			c.symbol[offs[l]] = s
			offs[l]++
		}
	}
	return c, left
}

// acceptable mirrors compress/flate's huffmanDecoder.init verdict (strict) or
// the permissive rule.
func acceptable(c *code, left int, permissive bool) bool {
	if left < 0 {
		return false
	}
	if c.n == 0 {
		return true // empty code: fails when used
	}
	if left == 0 {
		return true
	}
	if permissive {
		return true
	}
	return c.n == 1 && c.maxLen == 1
}

func (r *bitReader) decode(c *code) (sym int, length int) {
	if c.n == 0 {
		panic(errCorrupt{r.pos, "symbol needed from an empty code"})
	}
	start := r.pos
	cd, first, index := 0, 0, 0
	for l := 1; l <= c.maxLen; l++ {
		cd |= r.bit()
		cnt := c.count[l]
		if cd-cnt < first {
			return c.symbol[index+(cd-first)], l
		}
		index += cnt
		first += cnt
		first <<= 1
		cd <<= 1
	}
	panic(errCorrupt{start, "unassigned code used"})
}

var lenBase = [29]int{3, 4, 5, 6, 7, 8, 9, 10, 11, 13, 15, 17, 19, 23, 27, 31, 35, 43, 51, 59, 67, 83, 99, 115, 131, 163, 195, 227, 258}
var lenExtra = [29]int{0, 0, 0, 0, 0, 0, 0, 0, 1, 1, 1, 1, 2, 2, 2, 2, 3, 3, 3, 3, 4, 4, 4, 4, 5, 5, 5, 5, 0}
var distBase = [30]int{1, 2, 3, 4, 5, 7, 9, 13, 17, 25, 33, 49, 65, 97, 129, 193, 257, 385, 513, 769, 1025, 1537, 2049, 3073, 4097, 6145, 8193, 12289, 16385, 24577}
var distExtra = [30]int{0, 0, 0, 0, 1, 1, 2, 2, 3, 3, 4, 4, 5, 5, 6, 6, 7, 7, 8, 8, 9, 9, 10, 10, 11, 11, 12, 12, 13, 13}
var clOrder = [19]int{16, 17, 18, 0, 8, 7, 9, 6, 10, 5, 11, 4, 12, 3, 13, 2, 14, 1, 15}

var fixedLit, fixedDist code

func init() {
	var l [288]uint8
	for i := 0; i < 144; i++ {
		l[i] = 8
	}
	for i := 144; i < 256; i++ {
		l[i] = 9
	}
	for i := 256; i < 280; i++ {
		l[i] = 7
	}
	for i := 280; i < 288; i++ {
		l[i] = 8
	}
	fixedLit, _ = build(l[:])
	var d [32]uint8
	for i := range d {
		d[i] = 5
	}
	fixedDist, _ = build(d[:])
}

// Inflate decodes in (which may be followed by arbitrary trailing bytes).
func Inflate(in []byte, opt Options) (res *Result) {
	res = &Result{}
	maxOut := opt.MaxOut
	if maxOut == 0 {
		maxOut = 64 << 20
	}
	dict := opt.Dict
	if len(dict) > 32768 {
		dict = dict[len(dict)-32768:]
	}
	r := &bitReader{in: in}
	out := make([]byte, 0, 4096)
	inHeader := false
	var cur *Block
	defer func() {
		res.Out = out
		if cur != nil {
			cur.OutEnd = len(out)
			cur.EndBit = -1
			res.Blocks = append(res.Blocks, *cur)
		}
		res.BlockAtDefect = len(res.Blocks) - 1
		if e := recover(); e != nil {
			switch v := e.(type) {
			case errTrunc:
				res.Verdict = Truncated
				res.DefectBit = int64(len(in)) * 8
				res.Reason = "input ends inside the stream"
				res.CutInHeader = inHeader
			case errCorrupt:
				res.Verdict = Corrupt
				res.DefectBit = v.bit
				res.Reason = v.reason
			default:
				panic(e)
			}
		}
	}()
	for {
		// block boundary: a cut exactly here is a "clean" truncation
		res.CleanCut = r.pos == int64(len(in))*8
		start := r.pos
		inHeader = true
		cur = &Block{StartBit: start, OutStart: len(out), EndBit: -1}
		final := r.bit()
		res.CleanCut = false
		typ := r.bits(2)
		cur.Final = final == 1
		cur.Type = typ
		switch typ {
		case 0:
			// skip to byte boundary
			r.pos = (r.pos + 7) &^ 7
			n := r.bits(16)
			nn := r.bits(16)
			if n != (^nn)&0xffff {
				panic(errCorrupt{r.pos - 32, "stored block length check failed"})
			}
			cur.StoredLen = n
			cur.HeaderEndBit = r.pos
			inHeader = false
			bytePos := int(r.pos >> 3)
			avail := len(in) - bytePos
			take := n
			if take > avail {
				take = avail
			}
			if len(out)+take > maxOut {
				panic(errCorrupt{r.pos, "output limit"})
			}
			out = append(out, in[bytePos:bytePos+take]...)
			r.pos += int64(take) * 8
			if take < n {
				panic(errTrunc{})
			}
			cur.NSym = 0
			if n == 0 && final == 0 {
				res.Syncs = append(res.Syncs, SyncPoint{ByteEnd: int(r.pos >> 3), OutLen: len(out)})
			}
		case 1, 2:
			var lc, dc *code
			if typ == 1 {
				lc, dc = &fixedLit, &fixedDist
				cur.MaxLitLen, cur.MinLitLen, cur.MaxDistLen, cur.NumDistCodes = 9, 7, 5, 30
				cur.HeaderEndBit = r.pos
			} else {
				l, d := readDynamic(r, cur, opt.Permissive)
				lc, dc = l, d
				cur.HeaderEndBit = r.pos
			}
			inHeader = false
			for {
				symStart := r.pos
				sym, sl := r.decode(lc)
				cur.NSym++
				if sl > cur.MaxLitUsed {
					cur.MaxLitUsed = sl
				}
				if sym < 256 {
					if len(out)+1 > maxOut {
						panic(errCorrupt{symStart, "output limit"})
					}
					out = append(out, byte(sym))
					continue
				}
				if sym == 256 {
					break
				}
				if sym >= 286 {
					panic(errCorrupt{symStart, fmt.Sprintf("invalid length symbol %d", sym)})
				}
				length := lenBase[sym-257] + r.bits(lenExtra[sym-257])
				dsym, dl := r.decode(dc)
				if dl > cur.MaxDistUsed {
					cur.MaxDistUsed = dl
				}
				if dsym >= 30 {
					panic(errCorrupt{symStart, fmt.Sprintf("invalid distance symbol %d", dsym)})
				}
				dist := distBase[dsym] + r.bits(distExtra[dsym])
				if dist > len(out)+len(dict) {
					panic(errCorrupt{symStart, fmt.Sprintf("distance %d exceeds the %d bytes produced", dist, len(out)+len(dict))})
				}
				if len(out)+length > maxOut {
					panic(errCorrupt{symStart, "output limit"})
				}
				pos := len(out)
				for i := 0; i < length; i++ {
					src := len(out) - dist
					if src >= 0 {
						out = append(out, out[src])
					} else {
						out = append(out, dict[len(dict)+src])
					}
				}
				cur.NMatch++
				res.NumMatches++
				if dist > res.MaxDist {
					res.MaxDist = dist
					res.MaxDistAt = pos
				}
				if length > res.MaxLen {
					res.MaxLen = length
				}
				if dist < length {
					res.Overlaps++
				}
				if dist == 1 && length >= 8 {
					res.Dist1Long++
				}
				if opt.RecordMatches {
					res.Matches = append(res.Matches, Match{OutPos: pos, Len: length, Dist: dist})
				}
			}
		default:
			panic(errCorrupt{start, "reserved block type 3"})
		}
		cur.EndBit = r.pos
		cur.OutEnd = len(out)
		res.Blocks = append(res.Blocks, *cur)
		cur = nil
		if final == 1 {
			res.Verdict = Valid
			res.EndBit = r.pos
			res.EndByte = int((r.pos + 7) >> 3)
			return res
		}
	}
}

func readDynamic(r *bitReader, b *Block, permissive bool) (*code, *code) {
	hdrStart := r.pos
	nlit := r.bits(5) + 257
	ndist := r.bits(5) + 1
	ncode := r.bits(4) + 4
	b.HLIT, b.HDIST, b.HCLEN = nlit, ndist, ncode
	if nlit > 286 {
		panic(errCorrupt{hdrStart, fmt.Sprintf("HLIT declares %d lit/len codes", nlit)})
	}
	if ndist > 30 {
		panic(errCorrupt{hdrStart, fmt.Sprintf("HDIST declares %d distance codes", ndist)})
	}
	var cl [19]uint8
	for i := 0; i < ncode; i++ {
		cl[clOrder[i]] = uint8(r.bits(3))
	}
	clc, left := build(cl[:])
	if !acceptable(&clc, left, permissive) {
		panic(errCorrupt{hdrStart, "code-length code over-subscribed or incomplete"})
	}
	if left != 0 {
		b.Incomplete = true
	}
	lengths := make([]uint8, nlit+ndist)
	for i := 0; i < nlit+ndist; {
		symStart := r.pos
		sym, _ := r.decode(&clc)
		if sym < 16 {
			lengths[i] = uint8(sym)
			i++
			continue
		}
		var rep, val int
		switch sym {
		case 16:
			if i == 0 {
				panic(errCorrupt{symStart, "repeat-previous with nothing to repeat"})
			}
			val = int(lengths[i-1])
			rep = 3 + r.bits(2)
		case 17:
			rep = 3 + r.bits(3)
		default:
			rep = 11 + r.bits(7)
		}
		if i+rep > nlit+ndist {
			panic(errCorrupt{symStart, "code-length run past the declared count"})
		}
		if i < nlit && i+rep > nlit {
			b.RunCrosses = true
		}
		for j := 0; j < rep; j++ {
			lengths[i] = uint8(val)
			i++
		}
	}
	b.LitLens = lengths[:nlit]
	b.DistLens = lengths[nlit:]
	lc, lleft := build(lengths[:nlit])
	dc, dleft := build(lengths[nlit:])
	if !acceptable(&lc, lleft, permissive) {
		panic(errCorrupt{hdrStart, "lit/len code over-subscribed or incomplete"})
	}
	if !acceptable(&dc, dleft, permissive) {
		panic(errCorrupt{hdrStart, "distance code over-subscribed or incomplete"})
	}
	if (lleft != 0 && lc.n > 0) || (dleft != 0 && dc.n > 0) {
		b.Incomplete = true
	}
	b.MaxLitLen, b.MinLitLen, b.MaxDistLen, b.NumDistCodes = lc.maxLen, lc.minLen, dc.maxLen, dc.n
	return &lc, &dc
}
