package refinflate

import (
	"hash/adler32"
	"hash/crc32"
)

// Container verdicts (superset of the raw DEFLATE ones).
type CVerdict int

const (
	CValid     CVerdict = iota // every member well-formed, checksums match, input fully consumed (multistream) or first member complete
	CTruncated                 // input ends inside a member (header, body or trailer)
	CCorrupt                   // DEFLATE-level defect
	CChecksum                  // trailer does not match the decoded data
	CHeader                    // malformed container header
	CDict                      // zlib: dictionary required and not matching
)

func (v CVerdict) String() string {
	return [...]string{"VALID", "TRUNCATED", "CORRUPT", "CHECKSUM", "HEADER", "DICT"}[v]
}

type GzipMember struct {
	Start      int    // offset of the member's first byte
	BodyStart  int    // first byte of the DEFLATE stream
	BodyEnd    int    // first byte after the DEFLATE stream (start of the trailer)
	End        int    // first byte after the trailer
	Name       []byte // raw Latin-1 bytes
	Comment    []byte
	Extra      []byte
	HasExtra   bool
	MTime      uint32
	OS         byte
	XFL        byte
	Flags      byte
	Payload    []byte
	CRC, ISize uint32 // as stored in the trailer
	Inflate    *Result
}

type GzipResult struct {
	Verdict  CVerdict
	Members  []GzipMember // complete, verified members
	Payload  []byte       // concatenation of verified members' payloads plus whatever the failing member produced before its defect
	Partial  *GzipMember  // the member in which the problem lies (if any)
	Consumed int          // bytes of input covered by complete members
	Reason   string
	// EmptyInput: no byte at all (a valid "zero members" file for Go).
	EmptyInput bool
}

// ParseGzip parses a sequence of gzip members. With multistream=false only the
// first member is parsed and whatever follows is ignored.
func ParseGzip(in []byte, multistream bool) *GzipResult { return ParseGzipOpt(in, multistream, false) }

// ParseGzipOpt is ParseGzip with a choice of DEFLATE acceptance rules.
func ParseGzipOpt(in []byte, multistream, permissive bool) *GzipResult {
	res := &GzipResult{}
	if len(in) == 0 {
		res.EmptyInput = true
		res.Verdict = CValid
		return res
	}
	pos := 0
	for {
		m := GzipMember{Start: pos}
		fail := func(v CVerdict, why string) *GzipResult {
			res.Verdict = v
			res.Reason = why
			res.Partial = &m
			return res
		}
		if len(in)-pos < 10 {
			return fail(CTruncated, "short member header")
		}
		h := in[pos : pos+10]
		if h[0] != 0x1f || h[1] != 0x8b || h[2] != 8 {
			return fail(CHeader, "bad magic / method")
		}
		m.Flags = h[3]
		m.MTime = uint32(h[4]) | uint32(h[5])<<8 | uint32(h[6])<<16 | uint32(h[7])<<24
		m.XFL = h[8]
		m.OS = h[9]
		p := pos + 10
		if m.Flags&4 != 0 {
			if len(in)-p < 2 {
				return fail(CTruncated, "short FEXTRA length")
			}
			n := int(in[p]) | int(in[p+1])<<8
			p += 2
			if len(in)-p < n {
				return fail(CTruncated, "short FEXTRA data")
			}
			m.HasExtra = true
			m.Extra = in[p : p+n]
			p += n
		}
		readStr := func() ([]byte, CVerdict, bool) {
			for i := 0; ; i++ {
				if i >= 512 {
					return nil, CHeader, false
				}
				if p+i >= len(in) {
					return nil, CTruncated, false
				}
				if in[p+i] == 0 {
					s := in[p : p+i]
					p += i + 1
					return s, CValid, true
				}
			}
		}
		if m.Flags&8 != 0 {
			s, v, ok := readStr()
			if !ok {
				return fail(v, "FNAME")
			}
			m.Name = s
		}
		if m.Flags&16 != 0 {
			s, v, ok := readStr()
			if !ok {
				return fail(v, "FCOMMENT")
			}
			m.Comment = s
		}
		if m.Flags&2 != 0 {
			if len(in)-p < 2 {
				return fail(CTruncated, "short FHCRC")
			}
			want := uint16(in[p]) | uint16(in[p+1])<<8
			if uint16(crc32.ChecksumIEEE(in[pos:p])) != want {
				return fail(CHeader, "header CRC mismatch")
			}
			p += 2
		}
		m.BodyStart = p
		r := Inflate(in[p:], Options{Permissive: permissive})
		m.Inflate = r
		m.Payload = r.Out
		switch r.Verdict {
		case Truncated:
			res.Payload = append(res.Payload, r.Out...)
			return fail(CTruncated, "deflate stream truncated")
		case Corrupt:
			res.Payload = append(res.Payload, r.Out...)
			return fail(CCorrupt, r.Reason)
		}
		res.Payload = append(res.Payload, r.Out...)
		m.BodyEnd = p + r.EndByte
		p = m.BodyEnd
		if len(in)-p < 8 {
			return fail(CTruncated, "short trailer")
		}
		m.CRC = uint32(in[p]) | uint32(in[p+1])<<8 | uint32(in[p+2])<<16 | uint32(in[p+3])<<24
		m.ISize = uint32(in[p+4]) | uint32(in[p+5])<<8 | uint32(in[p+6])<<16 | uint32(in[p+7])<<24
		if m.CRC != crc32.ChecksumIEEE(r.Out) || m.ISize != uint32(len(r.Out)) {
			return fail(CChecksum, "trailer mismatch")
		}
		p += 8
		m.End = p
		res.Members = append(res.Members, m)
		res.Consumed = p
		pos = p
		if !multistream || pos == len(in) {
			res.Verdict = CValid
			return res
		}
	}
}

type ZlibResult struct {
	Verdict   CVerdict
	BodyStart int
	BodyEnd   int
	End       int
	HasDict   bool
	DictID    uint32
	Payload   []byte
	Adler     uint32
	Inflate   *Result
	Reason    string
}

// ParseZlib parses one zlib stream (RFC 1950); trailing bytes are ignored.
func ParseZlib(in []byte, dict []byte) *ZlibResult { return ParseZlibOpt(in, dict, false) }

// ParseZlibOpt is ParseZlib with a choice of DEFLATE acceptance rules.
func ParseZlibOpt(in []byte, dict []byte, permissive bool) *ZlibResult {
	res := &ZlibResult{}
	if len(in) < 2 {
		res.Verdict = CTruncated
		res.Reason = "short header"
		return res
	}
	h := uint16(in[0])<<8 | uint16(in[1])
	if in[0]&0x0f != 8 || in[0]>>4 > 7 || h%31 != 0 {
		res.Verdict = CHeader
		res.Reason = "bad CMF/FLG"
		return res
	}
	p := 2
	var d []byte
	if in[1]&0x20 != 0 {
		res.HasDict = true
		if len(in)-p < 4 {
			res.Verdict = CTruncated
			res.Reason = "short DICTID"
			return res
		}
		res.DictID = uint32(in[p])<<24 | uint32(in[p+1])<<16 | uint32(in[p+2])<<8 | uint32(in[p+3])
		p += 4
		if res.DictID != adler32.Checksum(dict) {
			res.Verdict = CDict
			res.Reason = "dictionary mismatch"
			return res
		}
		d = dict
	}
	res.BodyStart = p
	r := Inflate(in[p:], Options{Dict: d, Permissive: permissive})
	res.Inflate = r
	res.Payload = r.Out
	switch r.Verdict {
	case Truncated:
		res.Verdict = CTruncated
		res.Reason = "deflate stream truncated"
		return res
	case Corrupt:
		res.Verdict = CCorrupt
		res.Reason = r.Reason
		return res
	}
	res.BodyEnd = p + r.EndByte
	p = res.BodyEnd
	if len(in)-p < 4 {
		res.Verdict = CTruncated
		res.Reason = "short trailer"
		return res
	}
	res.Adler = uint32(in[p])<<24 | uint32(in[p+1])<<16 | uint32(in[p+2])<<8 | uint32(in[p+3])
	if res.Adler != adler32.Checksum(r.Out) {
		res.Verdict = CChecksum
		res.Reason = "adler mismatch"
		return res
	}
	res.End = p + 4
	res.Verdict = CValid
	return res
}
