// Package synth synthesises DEFLATE streams block by block from a compact,
// JSON-serialisable description, independent of any encoder. It emits bits
// LSB-first exactly as RFC 1951 section 3.1.1 prescribes and returns the bytes
// the stream encodes. A single fault can be injected at a chosen block.
package synth

import (
	"sort"
)

// BlockSpec describes one block; all bulk content is expanded deterministically
// from Seed.
type BlockSpec struct {
	Type      int    `json:"t"`            // 0 stored, 1 fixed, 2 dynamic
	N         int    `json:"n"`            // stored: byte count; Huffman: number of symbols (EOB not counted)
	Seed      uint64 `json:"s,omitempty"`  //
	Alpha     int    `json:"a,omitempty"`  // literal alphabet size 1..256
	MatchPct  int    `json:"m,omitempty"`  // probability (percent) that a symbol is a match
	DistMode  int    `json:"dm,omitempty"` // 0 any, 1 small, 2 far, 3 dist=1, 4 =32768 when possible, 5 overlap (dist<len)
	LenMode   int    `json:"lm,omitempty"` // 0 any, 1 short, 2 =258, 3 long
	Chain     int    `json:"ch,omitempty"` // 0..100 bias towards chain-like codes (lengths 1,2,...,15,15)
	ExtraLit  int    `json:"xl,omitempty"` // unused lit/len symbols that still get a code
	ExtraDist int    `json:"xd,omitempty"`
	DistCode  int    `json:"dc,omitempty"` // with <=1 distance symbol used: 0 single 1-bit code, 1 no code at all (no match), 2 complete code with extras
	PadLit    int    `json:"pl,omitempty"` // extra trailing zero entries declared via HLIT
	PadDist   int    `json:"pd,omitempty"`
	RLE       int    `json:"rle,omitempty"` // 0 lengths literally, 1 greedy runs, 2 random run choices
	FullHCLEN bool   `json:"fh,omitempty"`
	ExtraCL   int    `json:"xc,omitempty"`
	FreqSort  bool   `json:"fs,omitempty"`   // frequent symbols get the short codes
	Rep       int    `json:"rep,omitempty"`  // emit this block Rep times (seed varied); 0/1 = once
	Plan      []Run  `json:"plan,omitempty"` // scripted symbols instead of random ones (N is ignored)
	Alt258    bool   `json:"a258,omitempty"` // encode length 258 as symbol 284 + extra 31 (legal, non-canonical) instead of symbol 285
	Fork      int    `json:"fk,omitempty"`   // >0: code shape "chain to depth Fork, then two chains to the maximum depth" (several deep prefix groups)
}

// Run is N repetitions of one scripted symbol: a literal (Len == 0) or a match (Len, Dist).
type Run struct {
	N    int `json:"n"`
	Lit  int `json:"lit,omitempty"`
	Len  int `json:"len,omitempty"`
	Dist int `json:"dist,omitempty"`
}

// Fault kinds.
const (
	FDistTooFar     = "dist-too-far"         // a match whose distance exceeds the bytes produced by Arg (>=1)
	FUnassignedDist = "unassigned-dist"      // single 1-bit distance code, the other code used
	FNoDistCode     = "no-dist-code-used"    // block declares no distance code but uses a length symbol
	FOverLit        = "oversubscribed-lit"   // lit/len lengths over-subscribed
	FOverDist       = "oversubscribed-dist"  //
	FOverCL         = "oversubscribed-cl"    //
	FIncompleteDist = "incomplete-dist-long" // deep distance code made incomplete, its unassigned longest code used
	FIncompleteLit  = "incomplete-lit"       // lit/len code incomplete, unassigned code used as symbol At
	FMissingEOB     = "missing-eob"          // symbol 256 has length 0
	FRepeatFirst    = "repeat-first"         // code-length symbol 16 first
	FRunPast        = "run-past-count"       // a run that overshoots HLIT+HDIST+258
	FStoredLen      = "stored-len"           // LEN != ^NLEN
	FReserved       = "reserved-type"        // block type 3
	FBadLenSym      = "len-sym-286"          // fixed block using length symbol 286/287 (Arg 0/1)
	FBadDistSym     = "dist-sym-30"          // fixed block using distance symbol 30/31
	FHLIT           = "hlit-30"              // HLIT field 30 or 31 (Arg 0/1)
	FHDIST          = "hdist-30"             // HDIST field 30 or 31 (Arg 0/1)
	FRawLitLens     = "raw-litlen-lens"      // the literal/length code lengths are exactly Lens (any multiset; symbol 256 always gets a code); the block then uses only literals that have a code (or only end-of-block)
	FRawDistLens    = "raw-dist-lens"        // the distance code lengths are exactly Lens (any multiset: complete, incomplete or over-subscribed); the block uses no match
)

// Fault is injected in block Block (forced to a compatible type if needed) at symbol index At.
type Fault struct {
	Kind  string `json:"kind"`
	Block int    `json:"block"`
	At    int    `json:"at"`
	Arg   int    `json:"arg"`
	Lens  []int  `json:"lens,omitempty"` // FRawDistLens: code length of distance symbol i
}

// Stream is a list of blocks; the last one is final. PadBits makes the alignment padding before a stored
// block's LEN field and after the final block random instead of zero (the format leaves it unspecified).
type Stream struct {
	Blocks []BlockSpec `json:"blocks"`
	Fault  *Fault      `json:"fault,omitempty"`
	// Tail is the number of valid-looking filler bytes to append after a faulty
	// block so that decoders with look-ahead reach the defect with plenty of input.
	Tail    int  `json:"tail,omitempty"`
	PadBits bool `json:"padbits,omitempty"`
}

type Built struct {
	Bytes     []byte
	Expected  []byte // bytes encoded before the fault (all of them for a valid stream)
	FaultBit  int64  // bit position where the faulty element starts (-1 none)
	FaultDone bool   // the fault was actually injected
	EndBit    int64  // first bit after the final block (valid streams)
}

type rng struct{ s uint64 }

func (x *rng) next() uint64 {
	if x.s == 0 {
		x.s = 0x9E3779B97F4A7C15
	}
	x.s ^= x.s << 13
	x.s ^= x.s >> 7
	x.s ^= x.s << 17
	return x.s
}
func (x *rng) intn(n int) int {
	if n <= 1 {
		return 0
	}
	return int((x.next() >> 11) % uint64(n))
}

type bitw struct {
	b    []byte
	acc  uint64
	nacc uint
}

func (w *bitw) bits(v uint32, n uint) {
	w.acc |= uint64(v) << w.nacc
	w.nacc += n
	for w.nacc >= 8 {
		w.b = append(w.b, byte(w.acc))
		w.acc >>= 8
		w.nacc -= 8
	}
}
func (w *bitw) pos() int64 { return int64(len(w.b))*8 + int64(w.nacc) }

// alignPad is align with padding bits taken from pad (0 = zero bits, as every encoder writes).
func (w *bitw) alignPad(pad uint32) {
	if w.nacc > 0 {
		w.acc |= uint64(pad) << w.nacc & 0xff
		w.b = append(w.b, byte(w.acc))
		w.acc, w.nacc = 0, 0
	}
}

func (w *bitw) align() {
	if w.nacc > 0 {
		w.b = append(w.b, byte(w.acc))
		w.acc, w.nacc = 0, 0
	}
}

// code emits a Huffman code (given MSB-first value) LSB-first reversed.
func (w *bitw) code(c uint32, n uint) {
	var r uint32
	for i := uint(0); i < n; i++ {
		r = r<<1 | (c>>i)&1
	}
	w.bits(r, n)
}

var lenBase = [29]int{3, 4, 5, 6, 7, 8, 9, 10, 11, 13, 15, 17, 19, 23, 27, 31, 35, 43, 51, 59, 67, 83, 99, 115, 131, 163, 195, 227, 258}
var lenExtra = [29]uint{0, 0, 0, 0, 0, 0, 0, 0, 1, 1, 1, 1, 2, 2, 2, 2, 3, 3, 3, 3, 4, 4, 4, 4, 5, 5, 5, 5, 0}
var distBase = [30]int{1, 2, 3, 4, 5, 7, 9, 13, 17, 25, 33, 49, 65, 97, 129, 193, 257, 385, 513, 769, 1025, 1537, 2049, 3073, 4097, 6145, 8193, 12289, 16385, 24577}
var distExtra = [30]uint{0, 0, 0, 0, 1, 1, 2, 2, 3, 3, 4, 4, 5, 5, 6, 6, 7, 7, 8, 8, 9, 9, 10, 10, 11, 11, 12, 12, 13, 13}
var clOrder = [19]int{16, 17, 18, 0, 8, 7, 9, 6, 10, 5, 11, 4, 12, 3, 13, 2, 14, 1, 15}

func lenSym(l int) (sym int, extra uint32, nextra uint) {
	if l == 258 {
		return 285, 0, 0
	}
	for i := 27; i >= 0; i-- {
		if l >= lenBase[i] {
			return 257 + i, uint32(l - lenBase[i]), lenExtra[i]
		}
	}
	return 257, 0, 0
}

func distSym(d int) (sym int, extra uint32, nextra uint) {
	for i := 29; i >= 0; i-- {
		if d >= distBase[i] {
			return i, uint32(d - distBase[i]), distExtra[i]
		}
	}
	return 0, 0, 0
}

type sym struct {
	lit       int // 0..255 literal, -1 match
	len, dist int
}

// randomDepths returns the leaf depths of a random complete prefix code with n
// leaves and depth <= maxDepth (n==1 gives the degenerate single 1-bit code).
func randomDepths(n, maxDepth, chain, fork int, r *rng) []int {
	if n <= 0 {
		return nil
	}
	if n == 1 {
		return []int{1}
	}
	leaves := []int{1, 1}
	if fork > 0 && fork < maxDepth {
		var base []int
		for d := 1; d < fork; d++ {
			base = append(base, d)
		}
		for k := 0; k < 2; k++ {
			for d := fork + 1; d <= maxDepth; d++ {
				base = append(base, d)
			}
			base = append(base, maxDepth)
		}
		if len(base) <= n {
			leaves = base
		}
	}
	for len(leaves) < n {
		idx := -1
		if r.intn(100) < chain {
			best := -1
			for i, d := range leaves {
				if d < maxDepth && d > best {
					best, idx = d, i
				}
			}
		} else {
			// random splittable leaf
			for try := 0; try < 8 && idx < 0; try++ {
				i := r.intn(len(leaves))
				if leaves[i] < maxDepth {
					idx = i
				}
			}
			if idx < 0 {
				for i, d := range leaves {
					if d < maxDepth {
						idx = i
						break
					}
				}
			}
		}
		if idx < 0 {
			break
		}
		d := leaves[idx] + 1
		leaves[idx] = d
		leaves = append(leaves, d)
	}
	return leaves
}

// assign gives code lengths to the symbols in use (freq>0 or extra).
func assign(nsym int, freq []int, extra int, maxDepth, chain, fork int, freqSort bool, r *rng, force256 bool) []uint8 {
	lens := make([]uint8, nsym)
	var used []int
	for s := 0; s < nsym; s++ {
		if freq[s] > 0 {
			used = append(used, s)
		}
	}
	// extras: unused symbols that get a code anyway
	for e := 0; e < extra && len(used) < nsym; e++ {
		s := r.intn(nsym)
		for k := 0; k < nsym; k++ {
			c := (s + k) % nsym
			if freq[c] == 0 && !contains(used, c) {
				used = append(used, c)
				break
			}
		}
	}
	depths := randomDepths(len(used), maxDepth, chain, fork, r)
	if freqSort {
		sort.Ints(depths)
		sort.SliceStable(used, func(i, j int) bool { return freq[used[i]] > freq[used[j]] })
	} else {
		for i := len(depths) - 1; i > 0; i-- {
			j := r.intn(i + 1)
			depths[i], depths[j] = depths[j], depths[i]
		}
	}
	for i, s := range used {
		lens[s] = uint8(depths[i])
	}
	return lens
}

func contains(a []int, v int) bool {
	for _, x := range a {
		if x == v {
			return true
		}
	}
	return false
}

// canon computes canonical codes (MSB-first values) for lengths.
func canon(lens []uint8) []uint32 {
	var count [16]int
	for _, l := range lens {
		count[l]++
	}
	count[0] = 0
	var next [16]uint32
	c := uint32(0)
	for l := 1; l <= 15; l++ {
		c = (c + uint32(count[l-1])) << 1
		next[l] = c
	}
	codes := make([]uint32, len(lens))
	for s, l := range lens {
		if l != 0 {
			codes[s] = next[l]
			next[l]++
		}
	}
	return codes
}

func fixedLens() (lit, dist []uint8) {
	lit = make([]uint8, 288)
	for i := range lit {
		switch {
		case i < 144:
			lit[i] = 8
		case i < 256:
			lit[i] = 9
		case i < 280:
			lit[i] = 7
		default:
			lit[i] = 8
		}
	}
	dist = make([]uint8, 32)
	for i := range dist {
		dist[i] = 5
	}
	return
}

// Build expands the description.
func (s Stream) Build() Built {
	w := &bitw{}
	var out []byte
	res := Built{FaultBit: -1}
	stop := false
	var blocks []BlockSpec
	faultIdx := -1
	for bi, b := range s.Blocks {
		if s.Fault != nil && s.Fault.Block == bi {
			faultIdx = len(blocks)
		}
		n := b.Rep
		if n < 1 {
			n = 1
		}
		for k := 0; k < n; k++ {
			c := b
			c.Seed += uint64(k)
			blocks = append(blocks, c)
		}
	}
	for bi, b := range blocks {
		final := bi == len(blocks)-1
		var f *Fault
		if s.Fault != nil && faultIdx == bi {
			f = s.Fault
		}
		if f != nil {
			switch f.Kind {
			case FStoredLen:
				b.Type = 0
			case FBadLenSym, FBadDistSym:
				b.Type = 1
				if b.N < 1 {
					b.N = 1
				}
			case FReserved:
			default:
				b.Type = 2
				if b.N < 1 {
					b.N = 1
				}
			}
		}
		fin := uint32(0)
		if final {
			fin = 1
		}
		if f != nil && f.Kind == FReserved {
			res.FaultBit = w.pos()
			res.FaultDone = true
			w.bits(fin, 1)
			w.bits(3, 2)
			stop = true
			break
		}
		switch b.Type {
		case 0:
			n := b.N
			if n > 65535 {
				n = 65535
			}
			r := &rng{s: b.Seed*2654435761 + 12345}
			w.bits(fin, 1)
			w.bits(0, 2)
			if s.PadBits {
				w.alignPad(uint32(r.next() >> 20))
			} else {
				w.align()
			}
			nlen := uint32(^uint16(n))
			if f != nil {
				res.FaultBit = w.pos()
				res.FaultDone = true
				nlen ^= 1 << uint(f.Arg%16)
				stop = true
			}
			w.bits(uint32(n), 16)
			w.bits(nlen, 16)
			alpha := b.Alpha
			if alpha < 1 || alpha > 256 {
				alpha = 256
			}
			for i := 0; i < n; i++ {
				c := byte(r.intn(alpha))
				w.b = append(w.b, c)
				if !stop {
					out = append(out, c)
				}
			}
		default:
			stop = buildHuffman(w, &out, b, fin, f, &res)
		}
		if stop {
			break
		}
	}
	if !stop {
		res.EndBit = w.pos()
	}
	if s.PadBits && !stop {
		w.alignPad(0xA5)
	} else {
		w.align()
	}
	if stop && s.Tail > 0 {
		// filler after the defect: looks like compressed data (text-ish bytes)
		r := &rng{s: 99}
		for i := 0; i < s.Tail; i++ {
			w.b = append(w.b, byte(r.next()>>24))
		}
	}
	res.Bytes = w.b
	res.Expected = out
	return res
}

// genSyms expands the symbol content of a Huffman block.
func genSyms(b BlockSpec, produced int, r *rng) []sym {
	if len(b.Plan) > 0 {
		var syms []sym
		for _, run := range b.Plan {
			for i := 0; i < run.N; i++ {
				if run.Len > 0 {
					d := run.Dist
					if d > produced {
						d = produced
					}
					if d < 1 {
						// no history yet: fall back to a literal
						syms = append(syms, sym{lit: run.Lit & 0xff})
						produced++
						continue
					}
					syms = append(syms, sym{lit: -1, len: run.Len, dist: d})
					produced += run.Len
				} else {
					syms = append(syms, sym{lit: run.Lit & 0xff})
					produced++
				}
			}
		}
		return syms
	}
	syms := make([]sym, 0, b.N)
	alpha := b.Alpha
	if alpha < 1 || alpha > 256 {
		alpha = 256
	}
	for i := 0; i < b.N; i++ {
		if produced > 0 && r.intn(100) < b.MatchPct {
			var l int
			switch b.LenMode {
			case 1:
				l = 3 + r.intn(8)
			case 2:
				l = 258
			case 3:
				l = 200 + r.intn(59)
			default:
				switch r.intn(4) {
				case 0:
					l = 3 + r.intn(8)
				case 1:
					l = lenBase[r.intn(29)]
				case 2:
					l = 3 + r.intn(256)
				default:
					// just below the next base: maximal extra bits
					k := r.intn(28)
					l = lenBase[k+1] - 1
				}
			}
			maxd := produced
			if maxd > 32768 {
				maxd = 32768
			}
			var d int
			switch b.DistMode {
			case 1:
				d = 1 + r.intn(8)
			case 2:
				d = maxd - r.intn(4)
			case 3:
				d = 1
			case 4:
				d = maxd
			case 5:
				d = 1 + r.intn(l)
			default:
				switch r.intn(4) {
				case 0:
					d = 1 + r.intn(16)
				case 1:
					d = distBase[r.intn(30)]
				case 2:
					d = 1 + r.intn(maxd)
				default:
					k := r.intn(29)
					d = distBase[k+1] - 1
				}
			}
			if d > maxd {
				d = maxd
			}
			if d < 1 {
				d = 1
			}
			syms = append(syms, sym{lit: -1, len: l, dist: d})
			produced += l
		} else {
			syms = append(syms, sym{lit: r.intn(alpha)})
			produced++
		}
	}
	return syms
}

func buildHuffman(w *bitw, out *[]byte, b BlockSpec, fin uint32, f *Fault, res *Built) (stop bool) {
	r := &rng{s: b.Seed*0x9E3779B97F4A7C15 + 777}
	syms := genSyms(b, len(*out), r)
	fk := ""
	at := 0
	if f != nil {
		fk = f.Kind
		at = f.At
		if at < 0 {
			at = 0
		}
		if at >= len(syms) {
			at = len(syms) - 1
		}
	}
	if fk == FRawLitLens {
		// only literals that have a code in Lens (or nothing but end-of-block)
		lit := -1
		for i := 0; i < 256 && i < len(f.Lens); i++ {
			if f.Lens[i] > 0 {
				lit = i
				break
			}
		}
		if lit < 0 {
			syms = syms[:0]
		}
		for i := range syms {
			syms[i] = sym{lit: lit}
		}
	}
	if fk == FRawDistLens {
		for i := range syms {
			if syms[i].lit < 0 {
				syms[i] = sym{lit: int('a')}
			}
		}
	}
	// faults that need a particular symbol at position 'at'
	switch fk {
	case FDistTooFar, FUnassignedDist, FNoDistCode, FBadDistSym, FIncompleteDist:
		l := 3 + at%6
		syms[at] = sym{lit: -1, len: l, dist: 1}
		if fk == FUnassignedDist || fk == FNoDistCode {
			// no other match may exist in this block
			for i := range syms {
				if i != at && syms[i].lit < 0 {
					syms[i] = sym{lit: int('a')}
				}
			}
		}
		if fk == FDistTooFar {
			prod := len(*out)
			for _, s := range syms[:at] {
				if s.lit >= 0 {
					prod++
				} else {
					prod += s.len
				}
			}
			d := prod + 1 + f.Arg
			if d > 32768 {
				d = 32768
			}
			if d <= prod {
				// more than 32 KiB already produced: every distance is valid; no fault possible here
				fk = ""
				f = nil
			} else {
				syms[at].dist = d
			}
		}
	}
	var litLens, distLens []uint8
	if b.Type == 1 {
		litLens, distLens = fixedLens()
	} else {
		lf := make([]int, 286)
		df := make([]int, 30)
		lf[256] = 1
		for _, s := range syms {
			if s.lit >= 0 {
				lf[s.lit]++
			} else {
				ls, _, _ := lenSym(s.len)
				if b.Alt258 && s.len == 258 {
					ls = 284
				}
				ds, _, _ := distSym(s.dist)
				lf[ls]++
				df[ds]++
			}
		}
		if fk == FNoDistCode {
			df = make([]int, 30)
		}
		litLens = assign(286, lf, b.ExtraLit, 15, b.Chain, b.Fork, b.FreqSort, r, true)
		if fk == FRawLitLens {
			litLens = make([]uint8, 286)
			for i, l := range f.Lens {
				if i < 286 && l >= 0 && l <= 15 {
					litLens[i] = uint8(l)
				}
			}
			if litLens[256] == 0 {
				litLens[256] = 15
			}
		}
		ndused := 0
		for _, c := range df {
			if c > 0 {
				ndused++
			}
		}
		switch {
		case fk == FRawDistLens:
			distLens = make([]uint8, 30)
			for i, l := range f.Lens {
				if i < 30 && l >= 0 && l <= 15 {
					distLens[i] = uint8(l)
				}
			}
		case fk == FNoDistCode:
			distLens = make([]uint8, 30)
		case fk == FIncompleteDist:
			// a deep complete code over (almost) all 30 symbols, then one of its longest codes removed
			distLens = assign(30, df, 30, 15, 80, 12, false, r, false)
			best := -1
			for i, l := range distLens {
				if df[i] == 0 && (best < 0 || l > distLens[best]) {
					best = i
				}
			}
			if best >= 0 {
				distLens[best] = 0
			}
		case fk == FUnassignedDist:
			distLens = make([]uint8, 30)
			distLens[0] = 1
		case ndused == 0 && b.DistCode == 1:
			distLens = make([]uint8, 30)
		case ndused <= 1 && b.DistCode != 2:
			distLens = make([]uint8, 30)
			idx := 0
			for i, c := range df {
				if c > 0 {
					idx = i
				}
			}
			distLens[idx] = 1
		default:
			extra := b.ExtraDist
			if ndused+extra < 2 {
				extra = 2 - ndused
			}
			distLens = assign(30, df, extra, 15, b.Chain, b.Fork, b.FreqSort, r, false)
		}
		switch fk {
		case FOverLit:
			if f.Arg%2 == 1 && !addLongest(litLens) {
				bumpShorter(litLens, r)
			} else if f.Arg%2 == 0 {
				bumpShorter(litLens, r)
			}
		case FOverDist:
			if f.Arg%2 == 1 && addLongest(distLens) {
				// over-subscribed only through one more code of the longest length
			} else if !bumpShorter(distLens, r) {
				distLens[0], distLens[1], distLens[2] = 1, 1, 1
			}
		case FMissingEOB:
			litLens[256] = 0
		case FIncompleteLit:
			// remove one unused coded symbol or lengthen one code => incomplete
			makeIncomplete(litLens, lf)
		}
	}
	litCodes := canon(litLens)
	distCodes := canon(distLens)

	w.bits(fin, 1)
	w.bits(uint32(b.Type), 2)
	if b.Type == 2 {
		if writeDynHeader(w, b, litLens, distLens, fk, f, res, r) {
			return true
		}
	}
	for i, s := range syms {
		isFault := f != nil && i == at
		if s.lit >= 0 {
			if isFault && fk == FIncompleteLit {
				// emit an unassigned code: the all-ones code of the maximum length is unassigned in an incomplete canonical code
				res.FaultBit = w.pos()
				res.FaultDone = true
				ml := uint(0)
				for _, l := range litLens {
					if uint(l) > ml {
						ml = uint(l)
					}
				}
				w.code((1<<ml)-1, ml)
				return true
			}
			if isFault && fk == FBadLenSym {
				res.FaultBit = w.pos()
				res.FaultDone = true
				sy := 286 + f.Arg%2
				w.code(litCodes[sy], uint(litLens[sy]))
				return true
			}
			w.code(litCodes[s.lit], uint(litLens[s.lit]))
			*out = append(*out, byte(s.lit))
			continue
		}
		ls, lx, lnx := lenSym(s.len)
		if b.Alt258 && s.len == 258 && litLens[284] != 0 {
			ls, lx, lnx = 284, 31, 5
		}
		ds, dx, dnx := distSym(s.dist)
		if isFault {
			switch fk {
			case FDistTooFar:
				res.FaultBit = w.pos()
				res.FaultDone = true
				w.code(litCodes[ls], uint(litLens[ls]))
				w.bits(lx, lnx)
				w.code(distCodes[ds], uint(distLens[ds]))
				w.bits(dx, dnx)
				return true
			case FUnassignedDist:
				res.FaultBit = w.pos()
				res.FaultDone = true
				w.code(litCodes[ls], uint(litLens[ls]))
				w.bits(lx, lnx)
				w.bits(1, 1) // the unassigned 1-bit code
				return true
			case FIncompleteDist:
				res.FaultBit = w.pos()
				res.FaultDone = true
				w.code(litCodes[ls], uint(litLens[ls]))
				w.bits(lx, lnx)
				ml := uint(0)
				for _, l := range distLens {
					if uint(l) > ml {
						ml = uint(l)
					}
				}
				w.code((1<<ml)-1, ml) // the all-ones code of the maximum length is unassigned in an incomplete canonical code
				w.bits(0, 13)
				return true
			case FNoDistCode:
				res.FaultBit = w.pos()
				res.FaultDone = true
				w.code(litCodes[ls], uint(litLens[ls]))
				w.bits(lx, lnx)
				w.bits(0, 1)
				return true
			case FBadDistSym:
				res.FaultBit = w.pos()
				res.FaultDone = true
				w.code(litCodes[ls], uint(litLens[ls]))
				w.bits(lx, lnx)
				w.code(uint32(30+f.Arg%2), 5)
				return true
			}
		}
		w.code(litCodes[ls], uint(litLens[ls]))
		w.bits(lx, lnx)
		w.code(distCodes[ds], uint(distLens[ds]))
		w.bits(dx, dnx)
		for k := 0; k < s.len; k++ {
			*out = append(*out, (*out)[len(*out)-s.dist])
		}
	}
	if fk == FMissingEOB {
		// the block can never end; what follows is garbage by definition
		res.FaultBit = w.pos()
		res.FaultDone = true
		return true
	}
	if fk == FOverLit || fk == FOverDist {
		return true
	}
	w.code(litCodes[256], uint(litLens[256]))
	return false
}

// addLongest over-subscribes a code only through its longest length: an unused symbol gets a
// code of the maximum length already present (complete code + one more longest code).
func addLongest(lens []uint8) bool {
	max := uint8(0)
	for _, l := range lens {
		if l > max {
			max = l
		}
	}
	if max == 0 {
		return false
	}
	for i, l := range lens {
		if l == 0 && i != 256 {
			lens[i] = max
			return true
		}
	}
	return false
}

// bumpShorter shortens one code so that the Kraft sum exceeds 1.
func bumpShorter(lens []uint8, r *rng) bool {
	var idx []int
	for i, l := range lens {
		if l > 1 {
			idx = append(idx, i)
		}
	}
	if len(idx) == 0 {
		n := 0
		for i, l := range lens {
			if l == 1 {
				n++
			}
			_ = i
		}
		if n == 2 {
			// two 1-bit codes: add a third
			for i, l := range lens {
				if l == 0 {
					lens[i] = 1
					return true
				}
			}
		}
		return false
	}
	lens[idx[r.intn(len(idx))]]--
	return true
}

func makeIncomplete(lens []uint8, freq []int) {
	// lengthen the longest code by one if possible (leaves a hole), else drop an unused coded symbol
	best := -1
	for i, l := range lens {
		if l > 0 && l < 15 && (best < 0 || l > lens[best]) {
			best = i
		}
	}
	if best >= 0 {
		lens[best]++
		return
	}
	for i, l := range lens {
		if l > 0 && freq[i] == 0 {
			lens[i] = 0
			return
		}
	}
}

func writeDynHeader(w *bitw, b BlockSpec, litLens, distLens []uint8, fk string, f *Fault, res *Built, r *rng) (stop bool) {
	nlit := 257
	for i := 285; i >= 257; i-- {
		if litLens[i] != 0 {
			nlit = i + 1
			break
		}
	}
	nlit += b.PadLit
	if nlit > 286 {
		nlit = 286
	}
	ndist := 1
	for i := 29; i >= 1; i-- {
		if distLens[i] != 0 {
			ndist = i + 1
			break
		}
	}
	ndist += b.PadDist
	if ndist > 30 {
		ndist = 30
	}
	seq := make([]uint8, 0, nlit+ndist)
	seq = append(seq, litLens[:nlit]...)
	seq = append(seq, distLens[:ndist]...)
	// run-length encode
	type cl struct {
		sym   int
		extra uint32
		nx    uint
	}
	var cls []cl
	for i := 0; i < len(seq); {
		v := seq[i]
		run := 1
		for i+run < len(seq) && seq[i+run] == v {
			run++
		}
		mode := b.RLE
		if mode == 2 {
			mode = r.intn(2)
			if mode == 1 && r.intn(3) == 0 {
				// shorter than the longest legal run
				if run > 3 {
					run = 3 + r.intn(run-2)
				}
			}
		}
		if mode == 0 || run < 3 {
			cls = append(cls, cl{sym: int(v)})
			i++
			continue
		}
		if v == 0 {
			if run >= 11 {
				n := run
				if n > 138 {
					n = 138
				}
				cls = append(cls, cl{sym: 18, extra: uint32(n - 11), nx: 7})
				i += n
			} else {
				cls = append(cls, cl{sym: 17, extra: uint32(run - 3), nx: 3})
				i += run
			}
			continue
		}
		// non-zero: first literally, then repeats of 3..6
		if i > 0 && seq[i-1] == v && len(cls) > 0 {
			n := run
			if n > 6 {
				n = 6
			}
			cls = append(cls, cl{sym: 16, extra: uint32(n - 3), nx: 2})
			i += n
			continue
		}
		cls = append(cls, cl{sym: int(v)})
		i++
	}
	if fk == FRepeatFirst {
		cls = append([]cl{{sym: 16, extra: 0, nx: 2}}, cls...)
	}
	if fk == FRunPast {
		// Arg/128 selects the run symbol (0: 18 zeros, 1: 17 zeros, 2: 16 repeat previous), Arg%128 its
		// extra bits; At (when it is smaller than the number of items) cuts the item list there first,
		// so that a long run starts in the literal/length part and passes the whole distance part
		if f.At > 0 && f.At < len(cls) && f.Arg >= 384 {
			cls = cls[:f.At]
		}
		switch (f.Arg / 128) % 3 {
		case 1:
			cls = append(cls, cl{sym: 17, extra: uint32(f.Arg % 8), nx: 3})
		case 2:
			if len(cls) == 0 {
				cls = append(cls, cl{sym: 1})
			}
			cls = append(cls, cl{sym: 16, extra: uint32(f.Arg % 4), nx: 2})
		default:
			cls = append(cls, cl{sym: 18, extra: uint32(f.Arg % 128), nx: 7})
		}
	}
	// code-length code
	cf := make([]int, 19)
	for _, c := range cls {
		cf[c.sym]++
	}
	clLens := assign(19, cf, b.ExtraCL, 7, b.Chain, 0, true, r, false)
	nz := 0
	for _, l := range clLens {
		if l > 0 {
			nz++
		}
	}
	if nz == 1 {
		// a single code-length code: give it a sibling so the code is complete
		for i := range clLens {
			if clLens[i] == 0 {
				clLens[i] = 1
				break
			}
		}
	}
	if fk == FOverCL {
		if !bumpShorter(clLens, r) {
			for i := range clLens {
				if clLens[i] == 0 {
					clLens[i] = 1
					break
				}
			}
		}
	}
	clCodes := canon(clLens)
	ncode := 4
	for i := 18; i >= 4; i-- {
		if clLens[clOrder[i]] != 0 {
			ncode = i + 1
			break
		}
	}
	if b.FullHCLEN {
		ncode = 19
	}
	hdrStart := w.pos()
	hlit := uint32(nlit - 257)
	if fk == FHLIT {
		hlit = uint32(30 + f.Arg%2)
		res.FaultBit = hdrStart
		res.FaultDone = true
	}
	w.bits(hlit, 5)
	hdist := uint32(ndist - 1)
	if fk == FHDIST {
		hdist = uint32(30 + f.Arg%2)
		res.FaultBit = hdrStart
		res.FaultDone = true
	}
	w.bits(hdist, 5)
	w.bits(uint32(ncode-4), 4)
	for i := 0; i < ncode; i++ {
		w.bits(uint32(clLens[clOrder[i]]), 3)
	}
	if fk == FOverCL {
		res.FaultBit = hdrStart
		res.FaultDone = true
		return true
	}
	for i, c := range cls {
		if fk == FRepeatFirst && i == 0 {
			res.FaultBit = w.pos()
			res.FaultDone = true
		}
		if fk == FRunPast && i == len(cls)-1 {
			res.FaultBit = w.pos()
			res.FaultDone = true
		}
		w.code(clCodes[c.sym], uint(clLens[c.sym]))
		w.bits(c.extra, c.nx)
	}
	switch fk {
	case FRepeatFirst, FRunPast, FHLIT, FHDIST:
		return true
	case FOverLit, FOverDist, FRawDistLens, FRawLitLens:
		res.FaultBit = hdrStart
		res.FaultDone = true
	}
	return false
}
