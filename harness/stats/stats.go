// Package stats records, per process, what a property run actually explored and
// writes it as JSON for the driver to merge into the evidence file.
package stats

import (
	"encoding/json"
	"hash/fnv"
	"os"
	"sort"
	"sync"
)

type Prop struct {
	Evaluations int            `json:"evaluations"`
	NonTrivial  []uint64       `json:"nontrivial_digests"`
	Labels      map[string]int `json:"labels"`
	Samples     []any          `json:"samples"`
	Excluded    map[string]int `json:"excluded"`
	Exhaustive  map[string]int `json:"exhaustive_spaces"` // name -> size of a completely enumerated space
	Extra       map[string]any `json:"extra"`
	nt          map[uint64]struct{}
}

type File struct {
	Config string          `json:"config,omitempty"` // e.g. "noasmtest" for the pure-Go build configuration
	Level int              `json:"arch_level"`
	Props map[string]*Prop `json:"props"`
}

var (
	mu      sync.Mutex
	current = File{Props: map[string]*Prop{}}
	// MaxSamples bounds the samples kept per property and process.
	MaxSamples = 4
)

func get(id string) *Prop {
	p := current.Props[id]
	if p == nil {
		p = &Prop{Labels: map[string]int{}, Excluded: map[string]int{}, Exhaustive: map[string]int{}, Extra: map[string]any{}, nt: map[uint64]struct{}{}}
		current.Props[id] = p
	}
	return p
}

// Digest hashes a JSON-serialisable case description.
func Digest(v any) uint64 {
	b, _ := json.Marshal(v)
	h := fnv.New64a()
	h.Write(b)
	return h.Sum64()
}

// Record notes one evaluated case.
func Record(id string, digest uint64, nontrivial bool, labels []string, sample func() any) {
	mu.Lock()
	defer mu.Unlock()
	p := get(id)
	p.Evaluations++
	for _, l := range labels {
		p.Labels[l]++
	}
	if nontrivial {
		if _, ok := p.nt[digest]; !ok {
			p.nt[digest] = struct{}{}
			if len(p.Samples) < MaxSamples && sample != nil {
				p.Samples = append(p.Samples, sample())
			}
		}
	}
}

func Exclude(id, class string) {
	mu.Lock()
	defer mu.Unlock()
	get(id).Excluded[class]++
}

func Exhaustive(id, space string, size int) {
	mu.Lock()
	defer mu.Unlock()
	get(id).Exhaustive[space] += size
}

// ExtraMax keeps the maximum of a named float quantity.
func ExtraMax(id, key string, v float64) {
	mu.Lock()
	defer mu.Unlock()
	p := get(id)
	if old, ok := p.Extra[key].(float64); !ok || v > old {
		p.Extra[key] = v
	}
}

func ExtraAdd(id, key string, v float64) {
	mu.Lock()
	defer mu.Unlock()
	p := get(id)
	old, _ := p.Extra[key].(float64)
	p.Extra[key] = old + v
}

func SetLevel(l int) {
	mu.Lock()
	current.Level = l
	current.Config = os.Getenv("VERIF_CONFIG")
	mu.Unlock()
}

// Flush writes the stats file named by VERIF_STATS (if set).
func Flush() {
	path := os.Getenv("VERIF_STATS")
	if path == "" {
		return
	}
	mu.Lock()
	defer mu.Unlock()
	for _, p := range current.Props {
		p.NonTrivial = p.NonTrivial[:0]
		for d := range p.nt {
			p.NonTrivial = append(p.NonTrivial, d)
		}
		sort.Slice(p.NonTrivial, func(i, j int) bool { return p.NonTrivial[i] < p.NonTrivial[j] })
	}
	b, _ := json.Marshal(&current)
	_ = os.WriteFile(path, b, 0o644)
}
