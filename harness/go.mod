module verifharness

go 1.23

require (
	github.com/intel/fastgo v0.0.0
	pgregory.net/rapid v1.3.0
)

replace github.com/intel/fastgo => /repo
