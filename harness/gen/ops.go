package gen

import (
	"sort"

	"pgregory.net/rapid"
)

// Op is one Writer call. K: "W" write N bytes (taken from the data in order),
// "F" flush, "C" close, "R" reset.
type Op struct {
	K string `json:"k"`
	N int    `json:"n,omitempty"`
}

// cutCandidates are buffer-full points of the compressors.
// The first fill is at 2w+258 bytes (8450 / 65794); the buffer then keeps w bytes (plus the 0..8 the
// match finder left unresolved), so later fills come every w+258 bytes (minus 0..8): 12804, 17158,
// 21512 for the 4 KiB window, 98820, 131846 for the 32 KiB window.
var cutCandidates = []int{8450, 16900, 65536, 65794, 131072, 131588, 4096, 8192, 32768, 12804, 17158, 21512, 98820, 131846}

// DrawCuts draws sorted cut points in [0,n] partitioning n bytes.
func DrawCuts(t *rapid.T, n int, label string) []int {
	if n == 0 {
		return nil
	}
	var cuts []int
	switch rapid.IntRange(0, 5).Draw(t, label+"_pmode") {
	case 0:
		// one write
	case 1:
		// every byte (bounded)
		if n <= 3000 {
			for i := 1; i < n; i++ {
				cuts = append(cuts, i)
			}
		} else {
			// 1-byte writes for the first 600 bytes, then the rest
			for i := 1; i <= 600; i++ {
				cuts = append(cuts, i)
			}
		}
	case 2, 3:
		k := rapid.IntRange(1, 8).Draw(t, label+"_ncuts")
		for i := 0; i < k; i++ {
			cuts = append(cuts, rapid.IntRange(0, n).Draw(t, label+"_cut"))
		}
	default:
		// cuts at / next to buffer-full points
		k := rapid.IntRange(1, 4).Draw(t, label+"_ncuts")
		for i := 0; i < k; i++ {
			c := rapid.SampledFrom(cutCandidates).Draw(t, label+"_T") + rapid.IntRange(-2, 2).Draw(t, label+"_d")
			if rapid.IntRange(0, 3).Draw(t, label+"_dd") == 0 {
				c -= rapid.IntRange(0, 16).Draw(t, label+"_below") // later fills drift down by the unresolved tail
			}
			if c >= 0 && c <= n {
				cuts = append(cuts, c)
			} else {
				cuts = append(cuts, rapid.IntRange(0, n).Draw(t, label+"_cut"))
			}
		}
	}
	sort.Ints(cuts)
	return cuts
}

// DrawWriteOps draws a Write/Flush sequence that writes exactly n bytes.
// Flush positions are drawn first; the writes refine them.
func DrawWriteOps(t *rapid.T, n int, allowFlush bool) []Op {
	cuts := DrawCuts(t, n, "w")
	var ops []Op
	flushP := 0
	if allowFlush {
		flushP = rapid.SampledFrom([]int{0, 0, 1, 3, 10}).Draw(t, "flushp")
	}
	zeroP := rapid.SampledFrom([]int{0, 0, 1, 4}).Draw(t, "zerop")
	many := len(cuts) > 64
	maybe := func() {
		if many {
			// keep draws bounded for 1-byte partitions
			return
		}
		if zeroP > 0 && rapid.IntRange(0, 9).Draw(t, "z") < zeroP {
			ops = append(ops, Op{K: "W", N: 0})
		}
		if flushP > 0 && rapid.IntRange(0, 9).Draw(t, "f") < flushP {
			ops = append(ops, Op{K: "F"})
			if rapid.IntRange(0, 9).Draw(t, "ff") == 0 {
				ops = append(ops, Op{K: "F"})
			}
		}
	}
	maybe()
	prev := 0
	for _, c := range cuts {
		ops = append(ops, Op{K: "W", N: c - prev})
		prev = c
		maybe()
	}
	if n-prev > 0 || len(cuts) == 0 {
		ops = append(ops, Op{K: "W", N: n - prev})
		maybe()
	}
	if many && flushP > 0 {
		// a few flushes at drawn op indexes
		k := rapid.IntRange(1, 4).Draw(t, "nflush")
		for i := 0; i < k; i++ {
			at := rapid.IntRange(0, len(ops)).Draw(t, "flushat")
			ops = append(ops[:at], append([]Op{{K: "F"}}, ops[at:]...)...)
		}
	}
	return ops
}

// HasFlush reports whether ops contains a Flush.
func HasFlush(ops []Op) bool {
	for _, o := range ops {
		if o.K == "F" {
			return true
		}
	}
	return false
}
