// Package gen holds the generators shared by the property checks. Every random
// choice is drawn through rapid; bulk content is expanded deterministically from
// the drawn parameters, so a case is a pure function of its drawn values.
package gen

import (
	"pgregory.net/rapid"
)

// Seg is one segment of a data recipe.
type Seg struct {
	Kind string `json:"k"` // rand | text | run | period | repeat | fib | near | inc
	N    int    `json:"n"` // length in bytes
	A    int    `json:"a,omitempty"`
	B    int    `json:"b,omitempty"` // kind "fib": 1 = counts start 1,2,3,5 instead of 1,1,2,3; kind "period": alphabet size of the period (0 = all byte values)
	Seed uint64 `json:"s,omitempty"`
	Raw  []byte `json:"raw,omitempty"` // kind "raw": literal bytes (used by fuzz targets and replays)
}

// Recipe describes a byte string compactly.
type Recipe struct {
	Segs []Seg `json:"segs"`
}

type xs struct{ s uint64 }

func (x *xs) next() uint64 {
	if x.s == 0 {
		x.s = 0x9E3779B97F4A7C15
	}
	x.s ^= x.s << 13
	x.s ^= x.s >> 7
	x.s ^= x.s << 17
	return x.s
}

var words = []string{"the ", "of ", "and ", "compress", "ion ", "deflate ", "window", " a ", "in ", "to ", "stream", "block ", "huffman ", "\n", "0123456789", "is ", "that ", "for ", "it ", "with ", "as ", "was ", "Lorem ipsum ", "dolor sit amet, ", "zzzz", "e", "t", "a", " ", ", "}

// Len returns the total length.
func (r Recipe) Len() int {
	n := 0
	for _, s := range r.Segs {
		n += s.N
	}
	return n
}

// Bytes expands the recipe.
func (r Recipe) Bytes() []byte {
	out := make([]byte, 0, r.Len())
	for _, s := range r.Segs {
		out = s.appendTo(out)
	}
	return out
}

func (s Seg) appendTo(out []byte) []byte {
	x := xs{s: s.Seed*0x9E3779B97F4A7C15 + 0x1234567}
	n := s.N
	switch s.Kind {
	case "raw":
		out = append(out, s.Raw...)
	case "run":
		b := byte(s.A)
		for i := 0; i < n; i++ {
			out = append(out, b)
		}
	case "text":
		end := len(out) + n
		for len(out) < end {
			v := x.next()
			// Zipf-ish: prefer low indexes
			idx := int(v % uint64(len(words)))
			if v>>32&3 != 0 {
				idx = int((v >> 8) % 8)
			}
			out = append(out, words[idx]...)
		}
		out = out[:end]
	case "period":
		p := s.A
		if p < 1 {
			p = 1
		}
		pat := make([]byte, p)
		for i := range pat {
			pat[i] = byte(x.next() >> 24)
			if s.B > 1 && s.B < 256 {
				// period over a small alphabet
				pat[i] = 'a' + pat[i]%byte(s.B)
			}
		}
		if len(s.Raw) > 0 {
			// an explicit period
			pat, p = s.Raw, len(s.Raw)
		}
		for i := 0; i < n; i++ {
			out = append(out, pat[i%p])
		}
	case "repeat":
		d := s.A
		if d < 1 || d > len(out) {
			// not enough history: fall back to random bytes
			for i := 0; i < n; i++ {
				out = append(out, byte(x.next()>>24))
			}
			break
		}
		for i := 0; i < n; i++ {
			out = append(out, out[len(out)-d])
		}
	case "distfib":
		// matches of length 4 whose distance symbols have exact Fibonacci frequencies over A classes
		// (the rarest once, the next once, then 2, 3, 5, ...): the optimal distance code is one chain
		// A-1 deep, so from 17 classes on the 15-bit limiter has to run for the distance alphabet too.
		// One match = d fresh random bytes, then a copy of the first 4 of them.
		k := s.A
		if k < 2 {
			k = 2
		}
		if k > 22 {
			k = 22
		}
		var order []int
		fa, fb := 1, 1
		for c := 0; c < k; c++ {
			for j := 0; j < fa; j++ {
				order = append(order, c)
			}
			fa, fb = fb, fa+fb
		}
		for i := len(order) - 1; i > 0; i-- {
			j := int(x.next() % uint64(i+1))
			order[i], order[j] = order[j], order[i]
		}
		start := len(out)
		// lead-in of fresh random bytes (history for the far classes), then units of 8 bytes: a 4-byte copy
		// from a window that contains at least two fresh random bytes (so it occurs nowhere nearer) at a
		// distance inside the class's symbol, followed by 4 fresh random bytes
		for i := 0; i < distFibLead; i++ {
			out = append(out, byte(x.next()>>24))
		}
		for _, c := range order {
			sym := 4 + (k - 1 - c) // class k-1 (the most frequent) gets distance symbol 4 (distances 5..6)
			lo, hi := distFibBase[sym], distFibBase[sym+1]-1
			d := lo
			for cand := lo; cand <= hi; cand++ {
				if m := (len(out) - start - distFibLead - cand) & 7; m >= 2 && m <= 6 || len(out)-start-cand < distFibLead {
					d = cand
					break
				}
			}
			p := len(out) - d
			out = append(out, out[p], out[p+1], out[p+2], out[p+3])
			for i := 0; i < 4; i++ {
				out = append(out, byte(x.next()>>24))
			}
		}
		// exactly n bytes (n is DistFibLen(A) when the whole ladder is wanted)
		for len(out)-start < n {
			out = append(out, byte(x.next()>>24))
		}
		out = out[:start+n]
	case "ladder":
		// back-references whose length classes and distance classes follow a steeply decreasing
		// frequency ladder: very deep Huffman trees for both alphabets (rare symbols get 13..15-bit codes).
		// One match = d fresh random bytes followed by a copy of the first l of them (distance d).
		ratio := float64(s.A) / 10
		if ratio < 1.3 {
			ratio = 1.7
		}
		type class struct{ count, lenLo, lenHi, distLo, distHi int }
		lens := [][2]int{{4, 4}, {5, 5}, {6, 6}, {7, 7}, {8, 8}, {9, 9}, {10, 10}, {11, 12}, {13, 14}, {19, 22}, {35, 42}, {67, 82}, {131, 162}, {163, 194}, {227, 257}}
		dists := [][2]int{{5, 6}, {7, 8}, {9, 12}, {13, 16}, {17, 24}, {25, 32}, {33, 48}, {49, 64}, {65, 96}, {97, 128}, {129, 192}, {193, 256}, {257, 384}, {385, 512}, {513, 768}}
		// scale the top count so that the whole ladder is about n bytes
		unit := 0.0
		f := 1.0
		for i := range lens {
			unit += f * float64((dists[i][0]+dists[i][1])/2+(lens[i][0]+lens[i][1])/2+1)
			f /= ratio
		}
		c0 := float64(n) / unit
		var order []int
		f = c0
		for i := range lens {
			cnt := int(f + 0.5)
			if cnt < 1 {
				cnt = 1
			}
			for k := 0; k < cnt; k++ {
				order = append(order, i)
			}
			f /= ratio
		}
		for i := len(order) - 1; i > 0; i-- {
			j := int(x.next() % uint64(i+1))
			order[i], order[j] = order[j], order[i]
		}
		// the three rarest classes once more at the very end
		order = append(order, len(lens)-3, len(lens)-2, len(lens)-1)
		end := len(out) + n
		for _, ci := range order {
			l := lens[ci][0] + int(x.next()%uint64(lens[ci][1]-lens[ci][0]+1))
			d := dists[ci][0] + int(x.next()%uint64(dists[ci][1]-dists[ci][0]+1))
			start := len(out)
			for i := 0; i < d; i++ {
				out = append(out, byte(x.next()>>24))
			}
			for i := 0; i < l; i++ {
				out = append(out, out[start+i])
			}
			out = append(out, byte(x.next()>>24)|1)
		}
		for len(out) < end {
			out = append(out, byte(x.next()>>24))
		}
		if len(out) > end {
			// keep the tail (the rare classes are there)
			copy(out[end-n:end], out[len(out)-n:])
			out = out[:end]
		}
	case "interleave":
		// UTF-16-like: every other byte is the constant A (exactly half of the bytes are one symbol)
		for i := 0; i < n; i++ {
			if i%2 == 1 {
				out = append(out, byte(s.A))
			} else {
				// letters only (64..127), never equal to the constant 0 / 32 / 255; Seed odd: geometrically
				// skewed (a deep Huffman tree, as for real text), Seed even: uniform
				v := x.next()
				if s.Seed%2 == 1 {
					k := 0
					for k < 40 && v&1 == 1 {
						v >>= 1
						k++
					}
					out = append(out, byte(64+k))
				} else {
					out = append(out, byte(64+(v>>24)%64))
				}
			}
		}
	case "farmix":
		// short copies from far back (distance in (A/2, A]) interleaved with fresh random bytes:
		// produces match tokens with long distance codes and many extra bits
		maxd := s.A
		if maxd < 16 {
			maxd = 32768
		}
		end := len(out) + n
		for len(out) < end {
			if len(out) > maxd/2+16 && x.next()%3 != 0 {
				d := maxd/2 + 1 + int(x.next()%uint64(maxd/2))
				if d > len(out) {
					d = len(out)
				}
				l := 3 + int(x.next()%10)
				for i := 0; i < l && len(out) < end; i++ {
					out = append(out, out[len(out)-d])
				}
			} else {
				k := 1 + int(x.next()%6)
				for i := 0; i < k && len(out) < end; i++ {
					out = append(out, byte(x.next()>>24))
				}
			}
		}
	case "fib":
		// Fibonacci-skewed symbol frequencies: symbol k appears ~F(k) times.
		// Emits symbols in a shuffled-by-stride order.
		a := s.A
		if a < 2 {
			a = 2
		}
		if a > 40 {
			a = 40
		}
		fa, fb := 1, 1
		if s.B == 1 {
			// counts 1,2,3,5,...: with the end-of-block symbol as the other 1, the optimal code is one chain of depth a
			fa, fb = 1, 2
		}
		var pool []byte
		for k := 0; k < a && len(pool) < n; k++ {
			for j := 0; j < fa && len(pool) < n; j++ {
				pool = append(pool, byte(k*7+int(s.Seed)))
			}
			fa, fb = fb, fa+fb
		}
		for len(pool) < n {
			pool = append(pool, byte((a-1)*7+int(s.Seed)))
		}
		// deterministic shuffle
		for i := len(pool) - 1; i > 0; i-- {
			j := int(x.next() % uint64(i+1))
			pool[i], pool[j] = pool[j], pool[i]
		}
		out = append(out, pool...)
	case "near":
		// near-uniform: every value occurs n/256 (+-1) times, order shuffled
		pool := make([]byte, n)
		for i := range pool {
			pool[i] = byte(i + int(s.Seed))
		}
		for i := len(pool) - 1; i > 0; i-- {
			j := int(x.next() % uint64(i+1))
			pool[i], pool[j] = pool[j], pool[i]
		}
		out = append(out, pool...)
	case "inc":
		for i := 0; i < n; i++ {
			out = append(out, byte(i+s.A))
		}
	case "domlit":
		// "F r F r ...": r random, F a dominant byte (1-bit code) or, one time in A, a second byte; no
		// 4-byte substring repeats (literal tokens only); clusters of 3..5 F bytes sprinkled in, which
		// the scalar tail of the match finder turns into runs of single-literal tokens of 1..5 bits
		zOneIn := uint64(s.A)
		if zOneIn < 2 {
			zOneIn = 8
		}
		f := func() byte {
			if x.next()%zOneIn == 0 {
				return 'Z'
			}
			return 'X'
		}
		start := len(out)
		for len(out)-start < n {
			if x.next()%32 < 2 {
				for k, m := 0, 3+int(x.next()%3); k < m; k++ {
					out = append(out, f())
				}
			}
			out = append(out, f())
			r := byte(x.next() >> 24)
			for r == 'X' || r == 'Z' {
				r = byte(x.next() >> 24)
			}
			out = append(out, r)
		}
		out = out[:start+n]
	default: // "rand": uniform over an alphabet of size A (0/256 = all bytes)
		a := uint64(s.A)
		if a == 0 || a > 256 {
			a = 256
		}
		i := 0
		for ; i+8 <= n && a == 256; i += 8 {
			v := x.next()
			out = append(out, byte(v), byte(v>>8), byte(v>>16), byte(v>>24), byte(v>>32), byte(v>>40), byte(v>>48), byte(v>>56))
		}
		for ; i < n; i++ {
			out = append(out, byte((x.next()>>24)%a))
		}
	}
	return out
}

var distFibBase = []int{1, 2, 3, 4, 5, 7, 9, 13, 17, 25, 33, 49, 65, 97, 129, 193, 257, 385, 513, 769, 1025, 1537, 2049, 3073, 4097, 6145, 8193, 12289, 16385, 24577}

// DistFibLen is the length of a complete "distfib" ladder over k distance classes.
func DistFibLen(k int) int {
	if k < 2 {
		k = 2
	}
	if k > 22 {
		k = 22
	}
	n, fa, fb := distFibLead, 1, 1
	for c := 0; c < k; c++ {
		n += fa * 8
		fa, fb = fb, fa+fb
	}
	return n
}

const distFibLead = 2056

// Thresholds are input sizes at which the compressors change behaviour.
var Thresholds = []int{8, 258, 4096, 8192, 8450, 16892, 16900, 32768, 65536, 65794, 131072, 131580, 131588, 196608, 12804, 12796, 17158, 17142, 98820, 98812, 131846, 131830}

var runLens = []int{1, 2, 3, 4, 8, 257, 258, 259, 516, 517, 773, 774, 775}
var alphabets = []int{1, 2, 3, 4, 16, 64, 256}
var distances = []int{1, 2, 3, 4, 5, 7, 8, 9, 16, 17, 255, 256, 257, 4095, 4096, 4097, 32767, 32768, 32769, 65535, 65536, 65537}

// DrawLen draws a length from the size mixture, at most max.
func DrawLen(t *rapid.T, label string, max int) int {
	var n int
	switch rapid.IntRange(0, 9).Draw(t, label+"_mode") {
	case 0, 1, 2:
		n = rapid.IntRange(0, 64).Draw(t, label)
	case 3, 4, 5:
		n = rapid.IntRange(0, 8192).Draw(t, label)
	case 6:
		n = rapid.IntRange(0, max).Draw(t, label)
	default:
		th := rapid.SampledFrom(Thresholds).Draw(t, label+"_T")
		n = th + rapid.IntRange(-9, 9).Draw(t, label+"_d")
	}
	if n < 0 {
		n = 0
	}
	if n > max {
		n = max
	}
	return n
}

// DrawSeg draws one segment of about n bytes.
func DrawSeg(t *rapid.T, n int) Seg {
	kinds := []string{"rand", "rand", "text", "text", "run", "period", "repeat", "repeat", "fib", "near", "inc", "farmix", "interleave", "ladder", "domlit"}
	k := rapid.SampledFrom(kinds).Draw(t, "kind")
	s := Seg{Kind: k, N: n, Seed: rapid.Uint64Range(0, 1<<20).Draw(t, "seed")}
	switch k {
	case "rand":
		s.A = rapid.SampledFrom(alphabets).Draw(t, "alpha")
		if rapid.IntRange(0, 3).Draw(t, "alphasweep") == 0 {
			// any alphabet size: the gap of unused literal codes after it can have any length
			s.A = rapid.IntRange(1, 256).Draw(t, "alphaany")
		}
	case "run":
		s.A = rapid.IntRange(0, 255).Draw(t, "byte")
	case "period":
		if rapid.IntRange(0, 3).Draw(t, "pmode") == 0 {
			s.A = rapid.SampledFrom([]int{100, 257, 259, 1000, 4097, 8193}).Draw(t, "period")
		} else {
			s.A = rapid.IntRange(1, 64).Draw(t, "period")
		}
	case "repeat":
		s.A = rapid.SampledFrom(distances).Draw(t, "dist")
	case "ladder":
		s.A = rapid.SampledFrom([]int{15, 17, 17, 20}).Draw(t, "ratio")
	case "interleave":
		s.A = rapid.SampledFrom([]int{0, 0, 32, 255}).Draw(t, "const")
	case "farmix":
		s.A = rapid.SampledFrom([]int{4096, 32768, 32768, 20000}).Draw(t, "maxdist")
	case "domlit":
		s.A = rapid.SampledFrom([]int{4, 8, 8, 16}).Draw(t, "zonein")
	case "fib":
		s.A = rapid.IntRange(2, 30).Draw(t, "nsym")
	case "inc":
		s.A = rapid.IntRange(0, 255).Draw(t, "start")
	}
	return s
}

// DrawRecipe draws a data recipe of total length <= max.
func DrawRecipe(t *rapid.T, max int) Recipe {
	if max >= 140000 && rapid.IntRange(0, 15).Draw(t, "sparse") == 0 {
		return drawSparse(t, max)
	}
	if max >= 100000 && rapid.IntRange(0, 11).Draw(t, "far") == 0 {
		// random lead-in, then a long stretch of far short copies
		lead := rapid.SampledFrom([]int{17000, 33000, 40000}).Draw(t, "far_lead")
		n := rapid.IntRange(2000, 90000).Draw(t, "far_n")
		if lead+n > max {
			n = max - lead
		}
		return Recipe{Segs: []Seg{{Kind: "rand", N: lead, A: 256, Seed: rapid.Uint64Range(0, 1<<20).Draw(t, "seed")},
			{Kind: "farmix", N: n, A: rapid.SampledFrom([]int{32768, 32768, 4096, 20000}).Draw(t, "maxdist"), Seed: rapid.Uint64Range(0, 1<<20).Draw(t, "seed2")}}}
	}
	return DrawRecipeN(t, DrawLen(t, "total", max))
}

// drawSparse draws "sparse file" data: long runs of one byte aligned (or nearly aligned)
// to 64 KiB boundaries, so that a whole block consists of one symbol occurring 65536 times.
func drawSparse(t *rapid.T, max int) Recipe {
	var r Recipe
	lead := rapid.SampledFrom([]int{0, 0, 1, 100, 65536, 65535}).Draw(t, "sparse_lead")
	if lead > 0 {
		r.Segs = append(r.Segs, Seg{Kind: "text", N: lead, Seed: rapid.Uint64Range(0, 1<<20).Draw(t, "seed")})
	}
	b := rapid.SampledFrom([]int{0, 0, 255, 32}).Draw(t, "sparse_byte")
	n := rapid.SampledFrom([]int{65536, 65536, 131072, 65535, 65537, 70000}).Draw(t, "sparse_run")
	if lead+n > max {
		n = max - lead
	}
	r.Segs = append(r.Segs, Seg{Kind: "run", N: n, A: b})
	tail := rapid.SampledFrom([]int{0, 0, 1, 50}).Draw(t, "sparse_tail")
	if tail > 0 && lead+n+tail <= max {
		r.Segs = append(r.Segs, Seg{Kind: "text", N: tail, Seed: 5})
	}
	return r
}

// DrawRecipeN draws a data recipe of exactly total bytes.
func DrawRecipeN(t *rapid.T, total int) Recipe {
	nseg := rapid.IntRange(1, 6).Draw(t, "nseg")
	var r Recipe
	remaining := total
	for i := 0; i < nseg && remaining > 0; i++ {
		n := remaining
		if i < nseg-1 {
			switch rapid.IntRange(0, 3).Draw(t, "segmode") {
			case 0:
				n = rapid.SampledFrom(runLens).Draw(t, "seglen")
			case 1:
				n = rapid.IntRange(0, remaining).Draw(t, "seglen")
			case 2:
				n = rapid.IntRange(0, 300).Draw(t, "seglen")
			default:
				n = remaining / (nseg - i)
			}
			if n > remaining {
				n = remaining
			}
		}
		if n == 0 {
			continue
		}
		r.Segs = append(r.Segs, DrawSeg(t, n))
		remaining -= n
	}
	return r
}
